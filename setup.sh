#!/bin/bash
# Offline setup: optional contract library beside the repository's interpreter, then a self-test of the shims.
cd "$(dirname "$0")"
if [ ! -d .deps/icontract ]; then
  /venv/bin/pip install -q --no-index --find-links /opt/veriftools/wheels --target .deps icontract >/dev/null 2>&1 || \
    echo "setup: icontract not installed (checks fall back to the built-in contract wrapper)"
fi
export PYTHONPATH="$PWD:/repo/src"
/venv/bin/python -m vf.tools.selftest
