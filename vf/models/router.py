"""RouterModel: the executable oracle for routing / identity, written from the property statements.

It is replayed in the *recorded* service order, so "at that moment" is exact.  Three-valued where the
statements leave behaviour open (see DONT_CARE notes).
"""
from __future__ import annotations

ALL = 0x7FFFFFFF
MAX_MODULES = 200
MAX_HOSTS = 5
DYN_START = 100


class MMod:
    __slots__ = ("key", "mod_id", "logger", "daemon", "connected", "subs", "sub_all", "unique", "name", "pid",
                 "gone", "fin", "uid")

    def __init__(self, key, uid):
        self.key = key
        self.uid = uid
        self.mod_id = 0
        self.logger = False
        self.daemon = False
        self.connected = False
        self.subs = set()
        self.sub_all = False
        self.unique = True
        self.name = ""
        self.pid = 0
        self.gone = False   # removed from the manager's table
        self.fin = False    # client closed its socket; manager may or may not have noticed yet

    def wants(self, t):
        return self.sub_all or t in self.subs


class RouterModel:
    def __init__(self):
        self.mods = {}   # key -> MMod (live: accepted and not removed)
        self.order = []  # keys in accept order
        self.uid = 0

    # ---- table
    def accept(self, key):
        self.uid += 1
        m = MMod(key, self.uid)
        self.mods[key] = m
        return m

    def get(self, key):
        return self.mods.get(key)

    def remove(self, key):
        m = self.mods.pop(key, None)
        if m:
            m.gone = True
            m.connected = False
        return m

    def live_ids(self, exclude=None):
        return [m.mod_id for m in self.mods.values() if m is not exclude]

    # ---- identity (C06 statement)
    def connect_decision(self, m, mod_id, unique, name, explicit_name_rule=True):
        """'accept' | 'refuse' | 'either' for a connection request by the not-yet-connected module m."""
        if mod_id == 0:
            used = {x.mod_id for x in self.mods.values() if x is not m}
            if all(i in used for i in range(DYN_START, MAX_MODULES)):
                return "either"  # dynamic range exhausted: statement does not say which refusal form
            return "accept"
        if mod_id < 1 or mod_id > DYN_START:
            return "refuse"
        if mod_id == DYN_START:
            return "either"  # manager accepts <=100, Client refuses >=100: boundary left open
        verdict = "accept"
        refuse = False
        for x in self.mods.values():
            if x is m:
                continue
            conflict = None
            if x.mod_id == mod_id and (x.unique or unique):
                conflict = "refuse"
            elif name and x.name == name:
                if x.unique:
                    conflict = "refuse"      # reuses the name of a unique module, explicit id
                elif unique:
                    conflict = "either"      # unique newcomer re-using a non-unique module's name: open
            if conflict == "refuse" and not x.fin:
                refuse = True
            elif conflict:
                verdict = "either"           # x closed its socket; the manager may or may not have noticed yet
        return "refuse" if refuse else verdict

    def do_connect(self, m, mod_id, unique, name, logger, daemon, pid):
        m.mod_id = mod_id
        m.unique = unique
        m.name = name
        m.logger = logger
        m.daemon = daemon
        m.pid = pid
        m.connected = True

    # ---- subscriptions (C01/C02 statements)
    def subscribe(self, m, t):
        if t == ALL:
            m.subs.clear()
            m.sub_all = True
        elif not m.sub_all:
            m.subs.add(t)

    def unsubscribe(self, m, t):
        if t == ALL:
            m.subs.clear()
            m.sub_all = False
        elif not m.sub_all:
            m.subs.discard(t)

    # ---- routing (C01 statement)
    def recipients(self, t, dest_mod, dest_host):
        """returns (must, may): keys that must receive exactly one copy; keys for which either outcome is
        acceptable (socket already closed by the client but not yet noticed)."""
        if dest_mod < 0 or dest_mod > MAX_MODULES or dest_host < 0 or dest_host > MAX_HOSTS:
            return [], []
        must, may = [], []
        for m in self.mods.values():
            if not m.wants(t):
                continue
            if dest_mod == 0 or m.mod_id == dest_mod or m.logger:
                (may if m.fin else must).append(m.key)
        return must, may

    def state_sig(self):
        return tuple(sorted((m.mod_id, m.logger, m.sub_all, tuple(sorted(m.subs))) for m in self.mods.values()))
