"""Independent field-domain oracle for C09, written from the statement.

classify(kind, value) -> (verdict, canonical)
  verdict  : 'accept'  value is in the field's domain: if the assignment returns, read-back must equal canonical
             'refuse'  value is outside the domain: the assignment must raise (any exception) and change nothing
             'either'  the statement leaves it open; if it returns, read-back must equal canonical when not None
  canonical: expected read-back (floats compared via struct round trip, NaN == NaN), or None = not checked
"""
from __future__ import annotations

import ctypes
import math
import struct
from decimal import Decimal
from fractions import Fraction

NAN = float("nan")
INF = float("inf")


def irange(bits, signed):
    return (-(1 << (bits - 1)), (1 << (bits - 1)) - 1) if signed else (0, (1 << bits) - 1)


def fcanon(v, width):
    """nearest representable value of a finite Python number, or None if it overflows to infinity / cannot convert"""
    try:
        f = float(v)
    except (OverflowError, TypeError, ValueError):
        return None
    if math.isnan(f) or math.isinf(f):
        return f
    try:
        return struct.unpack("<f" if width == 32 else "<d", struct.pack("<f" if width == 32 else "<d", f))[0]
    except OverflowError:
        return None


def feq(a, b):
    if isinstance(a, float) and isinstance(b, float) and math.isnan(a) and math.isnan(b):
        return True
    return a == b and (not (isinstance(a, float) and isinstance(b, float)) or math.copysign(1, a) == math.copysign(1, b))


def classify_int(bits, signed, v):
    if isinstance(v, bool):
        return "either", int(v)
    if isinstance(v, ctypes._SimpleCData):
        return "either", None
    if not isinstance(v, int):
        return "refuse", None
    lo, hi = irange(bits, signed)
    if lo <= v <= hi:
        return "accept", v
    return "refuse", None


def classify_float(width, v):
    if isinstance(v, bool):
        return "either", float(v)
    if isinstance(v, ctypes._SimpleCData):
        return "either", None
    if isinstance(v, (Decimal, Fraction)):
        # real numbers with a nearest float: not in the statement's list of out-of-domain values (scalar fields refuse
        # them, array fields store them correctly) -> open; if accepted the read-back must be the nearest float
        c = fcanon(v, width)
        return ("either", c) if c is not None and not math.isinf(c) and not math.isnan(c) else ("refuse", None)
    if not isinstance(v, (int, float)):
        return "refuse", None
    if isinstance(v, float) and (math.isnan(v) or math.isinf(v)):
        return "either", v
    c = fcanon(v, width)
    if c is None:
        return "refuse", None       # finite Python value that overflows to infinity (or cannot convert)
    return "accept", c


def classify_char(v):
    if isinstance(v, ctypes._SimpleCData):
        return "either", None
    if not isinstance(v, str):
        return "refuse", None
    if len(v) > 1 or not v.isascii():
        return "refuse", None
    if v == "" or v == "\x00":
        return "either", None
    return "accept", v


def classify_string(n, v):
    if isinstance(v, ctypes.Array):
        return "either", None
    if not isinstance(v, str):
        return "refuse", None
    if not v.isascii():
        return "refuse", None
    if len(v) > n:
        return "refuse", None
    if len(v) == n:
        return "either", v.split("\x00")[0]   # fills the array without a terminator: rejection allowed
    return "accept", v.split("\x00")[0]


def classify_byte(v):
    if isinstance(v, bool):
        return "either", int(v)
    if isinstance(v, ctypes._SimpleCData):
        return "either", None
    if isinstance(v, int):
        return ("accept", v) if 0 <= v <= 255 else ("refuse", None)
    if isinstance(v, (bytes, bytearray)):
        return ("accept", v[0]) if len(v) == 1 else ("refuse", None)
    return "refuse", None


def classify_scalar(kind, v):
    k = kind[0]
    if k == "int":
        return classify_int(kind[1], kind[2], v)
    if k == "float":
        return classify_float(kind[1], v)
    if k == "char":
        return classify_char(v)
    if k == "byte":
        return classify_byte(v)
    if k == "string":
        return classify_string(kind[1], v)
    raise ValueError(kind)


def elem_kind(kind):
    k = kind[0]
    if k == "intarray":
        return ["int", kind[1], kind[2]]
    if k == "floatarray":
        return ["float", kind[1]]
    if k == "bytearray":
        return ["byte"]
    raise ValueError(kind)


def array_len(kind):
    return {"intarray": 3, "floatarray": 2, "bytearray": 1, "structarray": 2}[kind[0]] and kind[{"intarray": 3, "floatarray": 2, "bytearray": 1, "structarray": 2}[kind[0]]]


def classify_sequence(kind, seq, want_len):
    """whole-array or slice assignment of a Python sequence to a numeric / byte array"""
    ek = elem_kind(kind)
    if isinstance(seq, (str,)) or seq is None or isinstance(seq, (int, float, complex, Decimal, Fraction)):
        return "refuse", None
    if isinstance(seq, (bytes, bytearray)):
        if ek[0] != "byte":
            # a bytes object is a sequence of ints 0..255: each element is judged like any other int
            seq = list(seq)
        else:
            return ("accept", list(seq)) if len(seq) == want_len else ("refuse", None)
    try:
        items = list(seq)
    except TypeError:
        return "refuse", None
    if len(items) != want_len:
        return "refuse", None
    verdict, canon = "accept", []
    for x in items:
        if ek[0] == "byte" and isinstance(x, (bytes, bytearray)):
            v, c = "either", None       # list of bytes objects: open
        else:
            v, c = classify_scalar(ek, x)
        if v == "refuse":
            return "refuse", None
        if v == "either":
            verdict = "either"
        canon.append(c)
    if any(c is None for c in canon):
        canon = None
    return verdict, canon


def seq_equal(read, canon):
    if canon is None:
        return True
    read = list(read)
    if len(read) != len(canon):
        return False
    return all(feq(a, b) for a, b in zip(read, canon))
