"""pytest plugin: assignment contracts on the validator descriptors while the repository's own tests run.

    PYTHONPATH=/verif:$VF_REPO/src VF_CONTRACT_REPORT=<file> pytest -p vf.contracts_plugin tests/test_validators.py ...

Contract (the part of C09 that needs no domain knowledge): if an assignment through a validator descriptor raises,
every byte of the owning structure is unchanged. Evaluations and violations are counted and written to
VF_CONTRACT_REPORT at session end. The contract records and re-raises; it never changes the outcome of a test.
"""
import json
import os

STATE = {"evaluations": 0, "raised": 0, "violations": [], "wrapped": []}


def _owner_bytes(obj):
    try:
        return bytes(obj)
    except Exception:
        return None


def _wrap_set(cls, name):
    orig = cls.__dict__.get(name)
    if orig is None:
        return

    def wrapper(self, *args, **kwargs):
        owner = args[0] if name == "__set__" else getattr(self, "_bound_obj", None)
        before = _owner_bytes(owner) if owner is not None else None
        STATE["evaluations"] += 1
        try:
            return orig(self, *args, **kwargs)
        except Exception as e:
            STATE["raised"] += 1
            after = _owner_bytes(owner) if owner is not None else None
            if before is not None and after is not None and before != after and len(STATE["violations"]) < 20:
                STATE["violations"].append({"where": f"{cls.__name__}.{name}", "field": getattr(self, "_public_name", "?"), "exception": type(e).__name__,
                                            "value": repr(args[-1])[:80]})
            raise

    wrapper.__wrapped__ = orig
    setattr(cls, name, wrapper)
    STATE["wrapped"].append(f"{cls.__name__}.{name}")


def pytest_configure(config):
    import pyrtma.validators as v
    for cname in ("FloatValidatorBase", "IntValidatorBase", "Byte", "String", "Char", "ArrayField", "IntArray", "ByteArray", "FloatArray", "Struct", "StructArray"):
        cls = getattr(v, cname, None)
        if cls is None:
            continue
        for m in ("__set__", "__setitem__"):
            _wrap_set(cls, m)


def pytest_sessionfinish(session, exitstatus):
    path = os.environ.get("VF_CONTRACT_REPORT")
    if path:
        with open(path, "w") as f:
            json.dump(dict(STATE, exitstatus=int(exitstatus)), f)
