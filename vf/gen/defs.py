"""Seeded, grammar-directed generator of message-definition closures (1-5 YAML files) for the compiler checks.

Returns the file texts *and* an independent semantic description of what was written (constants with values,
aliases with targets, structs/messages with ordered (field, type text, length) lists, ids), so the oracles never
read the meaning back from the compiler under test.
"""
from __future__ import annotations

import random

NATIVES = {  # name -> (class, size)   (26 documented/back-end names; 'signed char' is parser-only and excluded)
    "char": ("char", 1), "unsigned char": ("u8", 1), "byte": ("u8", 1), "int": ("i32", 4), "signed int": ("i32", 4),
    "unsigned int": ("u32", 4), "unsigned": ("u32", 4), "short": ("i16", 2), "signed short": ("i16", 2),
    "unsigned short": ("u16", 2), "long": ("i32", 4), "signed long": ("i32", 4), "unsigned long": ("u32", 4),
    "long long": ("i64", 8), "signed long long": ("i64", 8), "unsigned long long": ("u64", 8), "float": ("f32", 4),
    "double": ("f64", 8), "uint8": ("u8", 1), "uint16": ("u16", 2), "uint32": ("u32", 4), "uint64": ("u64", 8),
    "int8": ("i8", 1), "int16": ("i16", 2), "int32": ("i32", 4), "int64": ("i64", 8),
}
NATIVE_NAMES = list(NATIVES)
WORDS = ["alpha", "beta", "gamma", "delta", "omega", "sigma", "kappa", "theta", "zeta", "rho", "tau", "phi", "chi", "psi", "eta", "iota",
         "lam", "mu", "nu", "xi", "pi", "ups", "vel", "pos", "acc", "cnt", "idx", "val", "flag", "mode", "gain", "bias"]
CORE_ALIASES = {"MODULE_ID": "int16", "HOST_ID": "int16", "MSG_TYPE": "int32", "MSG_COUNT": "int32"}


class Namer:
    def __init__(self, rng, tag="", long_names=0.04, section_names=0.03):
        self.rng = rng
        self.used = set()
        self.tag = tag
        self.long_names = long_names
        self.embedded = section_names

    def new(self, prefix, upper=True):
        while True:
            w = self.rng.choice(WORDS)
            if self.rng.random() < self.long_names:
                # a long identifier (legal everywhere; column-aligned output formats have to cope)
                w = "_".join(self.rng.choice(WORDS) for _ in range(self.rng.randint(9, 12)))[:self.rng.choice([40, 41, 42, 43, 44, 46, 50, 55])]
            n = f"{prefix}{self.tag}{w}{self.rng.randint(0, 99)}"
            n = n.upper() if upper else n.lower()
            if upper and self.rng.random() < 0.06:
                # identifiers need not be upper case
                n = self.rng.choice([n.lower(), n.title().replace("_", ""), n[0].upper() + n[1:].lower()])
            if upper and self.rng.random() < self.embedded:
                # ordinary words that happen to contain a section prefix of one of the output formats
                # (pyraMID_, orcHID_, forMT_ ..., and a mixed-case one)
                n = f"{prefix}{self.tag}" + self.rng.choice(["PYRAMID_", "ORCHID_", "HUMID_", "XMT_", "Rehash_", "geohash_", "SUBMDF_", "predefines_"]) \
                    + w.upper() + str(self.rng.randint(0, 99))
            if upper and prefix == "M_" and self.rng.random() < self.embedded:
                n = "hash_" + w.upper() + str(self.rng.randint(0, 99))     # a message whose name starts like an output section
            if n not in self.used:
                self.used.add(n)
                return n


class Desc:
    """semantic description accumulated in parse order"""

    def __init__(self):
        self.constants = {}     # name -> value
        self.const_expr = {}    # name -> expression text
        self.strings = {}       # name -> str
        self.aliases = {}       # name -> target type text
        self.hosts = {}
        self.modules = {}
        self.defs = {}          # name -> dict(kind=struct|message|signal, id, fields=[(fname, ttext, lenexpr, length)], copy_of, file)
        self.order = []         # definition names in parse order
        self.reserved = []      # reserved ids
        self.features = set()

    def resolve_alias(self, t):
        n = 0
        while t in self.aliases and n < 20:
            t = self.aliases[t]
            n += 1
        return t

    def tojson(self):
        return {"constants": self.constants, "strings": self.strings, "aliases": self.aliases, "hosts": self.hosts,
                "modules": self.modules, "defs": self.defs, "order": self.order, "reserved": self.reserved,
                "features": sorted(self.features)}


# --------------------------------------------------------------------------------------------- natural layout oracle
def type_layout(desc, t, cache):
    """(size, alignment, class) of a type text, by natural C layout rules"""
    if t in NATIVES:
        return NATIVES[t][1], NATIVES[t][1], NATIVES[t][0]
    if t in CORE_ALIASES:
        b = CORE_ALIASES[t]
        return NATIVES[b][1], NATIVES[b][1], NATIVES[b][0]
    if t in desc["aliases"]:
        return type_layout(desc, desc["aliases"][t], cache)
    if t in desc["defs"]:
        lay = struct_layout(desc, t, cache)
        return lay["size"], lay["align"], "struct:" + t
    raise KeyError(t)


def struct_layout(desc, name, cache=None):
    """natural layout of the *user* fields of a struct / message: offsets, size, alignment (independent oracle)"""
    cache = {} if cache is None else cache
    if name in cache:
        return cache[name]
    d = desc["defs"][name]
    fields = d["fields"]
    if d.get("copy_of"):
        fields = desc["defs"][d["copy_of"]]["fields"] if not desc["defs"][d["copy_of"]].get("copy_of") else \
            struct_layout(desc, d["copy_of"], cache)["src_fields"]
    off, al, out = 0, 1, []
    for fname, ttext, lenexpr, length in fields:
        sz, a, cls = type_layout(desc, ttext, cache)
        if off % a:
            off += a - off % a
        out.append({"name": fname, "offset": off, "size": sz * (length or 1), "align": a, "cls": cls, "count": length or 1,
                    "array": length is not None})
        off += sz * (length or 1)
        al = max(al, a)
    if off % al:
        off += al - off % al
    lay = {"fields": out, "size": off, "align": al, "src_fields": fields,
           "needs_padding": any(f["offset"] != sum(x["size"] for x in out[:i]) for i, f in enumerate(out)) or off != sum(x["size"] for x in out)}
    cache[name] = lay
    return lay


# --------------------------------------------------------------------------------------------- generator
class Gen:
    def __init__(self, rng: random.Random, allow_known=False, max_files=5, heavy_align=False, use_core=True, tag="", long_names=0.04, section_names=0.03):
        self.rng = rng
        self.allow_known = allow_known
        self.max_files = max_files
        self.heavy = heavy_align
        self.use_core = use_core
        self.nm = Namer(rng, tag, long_names, section_names)
        self.desc = Desc()
        self.next_id = rng.randint(1000, 4000)
        # message ids in definition order are ascending in most programs and descending in the others (a nested message
        # may then have a larger id than the message that uses it)
        self.descending_ids = rng.random() < 0.35
        self.mids = rng.sample(list(range(10, 100)) + list(range(200, 260)), 20)
        self.hids = rng.sample(range(1, 32000), 20)
        self.cache = {}

    def idmap(self, x):
        return 10990 - x if self.descending_ids else x

    # ---- per-file body
    def gen_file(self, fname, visible, imported_structs, imported_msgs):
        """visible: names of int constants usable in expressions / lengths. Returns yaml text (without imports)."""
        rng, D = self.rng, self.desc
        sections = {"constants": [], "string_constants": [], "aliases": [], "host_ids": [], "module_ids": [], "struct_defs": [], "message_defs": []}
        ints = [k for k in visible if isinstance(D.constants.get(k), int) and 1 <= D.constants[k] <= 40]
        for _ in range(rng.randint(0, 4)):
            n = self.nm.new("K_")
            r = rng.random()
            if r < 0.4 or not ints:
                v = rng.choice([rng.randint(1, 12), rng.randint(1, 40), rng.randint(-1000, 100000), 0x7FFF, 2 ** 31 - 1, 2 ** 40])
                expr = str(v)
                # YAML also accepts hexadecimal integers (the core definitions use them)
                sections["constants"].append(f"  {n}: " + (f"0x{v:X}" if v >= 0 and rng.random() < 0.2 else expr))
            elif r < 0.55:
                v = rng.choice([2.5, 0.001, -17.25, 1e-05, 100.0, 3.0e8, 3.141592653589793, 1234567.125, 0.30000000000000004,
                                6.02214076e23, 1.7976931348623157e308, 2.2250738585072014e-308, 123456789.0, 0.1,
                                -0.3333333333333333, 16777217.0, rng.uniform(-1000, 1000), rng.random() * 1e-9])
                expr = repr(v)
                sections["constants"].append(f"  {n}: {expr}")
                D.features.add("float_constant")
            else:
                a, b = rng.choice(ints), rng.choice(ints)
                form = rng.choice(["{a} + {b}", "{a} * 2", "({a} + 1) * 2 - 1", "{a} + {b} - 1", "{a} * {b}", "{a}", "{a} / 2", "({a} * 2 + 1) / 2",
                                   "{a} / {b}", "{a} - {b} * 3", "{a} * 4 / 4", "{a} / {b}", "1.0 / {a}", "{a} * 0.1", "{a} / 7",
                                   "({a} + {b}) / 3.0", "{a} * 1e-3 + {b}"])
                expr = form.format(a=a, b=b)
                v = eval(expr, {}, {k: D.constants[k] for k in (a, b)})
                sections["constants"].append(f"  {n}: {expr}")
                D.features.add("constant_expression")
            D.constants[n] = v
            D.const_expr[n] = expr
            if isinstance(v, int) and 1 <= v <= 40:
                ints.append(n)
                if rng.random() < 0.2:
                    # a companion whose name extends this one (NCH / NCH_SPARE, K1 / K12), then both in one expression
                    n2 = n + rng.choice(["_SPARE", "2", "_MAX", "X"])
                    if n2 not in D.constants and n2 not in self.nm.used:
                        self.nm.used.add(n2)
                        v2 = rng.randint(1, 9)
                        sections["constants"].append(f"  {n2}: {v2}")
                        D.constants[n2], D.const_expr[n2] = v2, str(v2)
                        ints.append(n2)
                        n3 = self.nm.new("K_")
                        form = rng.choice(["{a} + {b}", "{a} * {b} + {a}", "{b} - {a} + {a} * 2", "{a} + {b} + {a}"])
                        e3 = form.format(a=n, b=n2)
                        v3 = eval(e3, {}, {n: v, n2: v2})
                        sections["constants"].append(f"  {n3}: {e3}")
                        D.constants[n3], D.const_expr[n3] = v3, e3
                        D.features.add("constant_name_extends_another")
                        if 1 <= v3 <= 40:
                            ints.append(n3)
        for _ in range(rng.randint(0, 2)):
            n = self.nm.new("STR_")
            s = "".join(rng.choice("abcdefXYZ 0123456789_-+=.,;:!@$^&*()[]{}<>/|~") for _ in range(rng.randint(0, 20))).strip() or "x"
            if rng.random() < 0.3:
                # characters that need escaping in one or another target language
                s = "".join(rng.choice("ab 01" + "\"\\'%#") for _ in range(rng.randint(1, 12))).strip() or "\""
            r_ = rng.random()
            if r_ < 0.05:
                s = ""                                                     # the empty string
            elif r_ < 0.12:
                s = " ".join(rng.choice(["alpha:beta", "x=1;", "note", "a/b", "100%", "(k)"]) for _ in range(rng.randint(12, 30)))   # well over 80 columns
            elif r_ < 0.18:
                s = "".join(rng.choice("aé µΩ°ß") for _ in range(rng.randint(1, 10))).strip() or "é"          # not ASCII
            if rng.random() < 0.06:
                # control characters, written the only way YAML allows inside one line: escapes between double quotes
                s = "".join(rng.choice(["a", "b", " ", "1", "\t", "\t", "\n", "\r"]) for _ in range(rng.randint(1, 8))).strip(" ") or "\t"
                y = s.replace("\\", "\\\\").replace('"', '\\"').replace("\t", "\\t").replace("\n", "\\n").replace("\r", "\\r")
                sections["string_constants"].append(f'  {n}: "{y}"')
                D.strings[n] = s
                D.features.add("string_constant_with_control_characters")
                continue
            y = s.replace("'", "''")
            sections["string_constants"].append(f"  {n}: '{y}'")
            D.strings[n] = s
        # aliases (parsed before this file's structs: may only name natives, earlier aliases, imported structs)
        local_aliases = []
        for _ in range(rng.randint(0, 3)):
            n = self.nm.new("T_")
            choices = [rng.choice(NATIVE_NAMES)]
            known = list(D.aliases)
            if known:
                choices.append(rng.choice(known))
            if self.allow_known and imported_structs and rng.random() < 0.5:
                choices = [rng.choice(imported_structs)]
                D.features.add("K1_alias_of_struct")
            t = rng.choice(choices)
            if t in D.aliases:
                D.features.add("alias_of_alias")
            sections["aliases"].append(f"  {n}: {t}")
            D.aliases[n] = t
            local_aliases.append(n)
        if rng.random() < 0.05:
            # an alias that happens to be called like a native type (the parser accepts it; a field declared with that
            # name still means the native type, in every output)
            n = rng.choice(["uint16", "int8", "uint8", "int16", "int32", "uint32", "int64", "uint64"])
            if n not in D.aliases:
                t = rng.choice([x for x in ("uint8", "int16", "uint32", "int64", "double") if NATIVES[x][1] != NATIVES[n][1]])
                sections["aliases"].append(f"  {n}: {t}")
                D.aliases[n] = t
                local_aliases.append(n)
                D.features.add("alias_named_like_native_type")
        for _ in range(rng.randint(0, 2)):
            n = self.nm.new("H_")
            v = self.hids.pop()
            if rng.random() < 0.15:
                # host ids have a namespace of their own: the name of a core module / message / constant is legal here
                cand = [x for x in ("DATA_LOGGER", "MESSAGE_MANAGER", "QUICK_LOGGER", "ACTIVE_CLIENTS", "MAX_MODULES", "TIMING_MESSAGE")
                        if x not in D.hosts]
                if cand:
                    n = rng.choice(cand)
                    D.features.add("host_named_like_core_object")
            sections["host_ids"].append(f"  {n}: {v}")
            D.hosts[n] = v
        for _ in range(rng.randint(0, 2)):
            n = self.nm.new("MOD_")
            if rng.random() < 0.15:
                cand = [x for x in ("LOCAL_HOST", "ALL_HOSTS", "ACTIVE_CLIENTS", "MAX_HOSTS", "CLIENT_INFO", "DATA_COLLECTION")
                        if x not in D.modules]
                if cand:
                    n = rng.choice(cand)
                    D.features.add("module_named_like_core_object")
            v = self.mids.pop()
            sections["module_ids"].append(f"  {n}: {v}")
            D.modules[n] = v

        def field_list(nf, types_extra):
            out, txt = [], []
            used = set()
            for _ in range(nf):
                fn = self.nm.new("f_", upper=False)
                while fn in used:
                    fn = self.nm.new("f_", upper=False)
                if rng.random() < 0.03:
                    # plain words that older YAML versions read as booleans (plain strings in the version the parser uses)
                    w = rng.choice(["on", "off", "yes", "no"])
                    if w not in used:
                        fn = w
                        D.features.add("field_named_like_yaml11_boolean")
                used.add(fn)
                pool = list(NATIVE_NAMES)
                if self.heavy:
                    pool = ["char", "int8", "uint8", "int16", "uint16", "short", "int32", "float", "int64", "double", "uint64", "byte"]
                r = rng.random()
                if r < 0.55 or not (types_extra or D.aliases):
                    t = rng.choice(pool)
                elif r < 0.75 and D.aliases:
                    t = rng.choice(list(D.aliases))
                    D.features.add("alias_field")
                elif r < 0.8 and self.use_core:
                    t = rng.choice(list(CORE_ALIASES))
                    D.features.add("core_alias_field")
                elif types_extra:
                    t = rng.choice(types_extra)
                    D.features.add("nested")
                else:
                    t = rng.choice(pool)
                r = rng.random()
                if r < 0.5:
                    lenexpr, length = None, None
                elif r < 0.8 or not ints:
                    length = rng.choice([1, 2, 3, 4, 5, 7, 8, 9, 16, 33]) if not self.heavy else rng.randint(1, 9)
                    lenexpr = str(length)
                else:
                    k = rng.choice(ints)
                    form = rng.choice(["{k}", "{k} + 1", "{k} * 2", "{k} + {j}", "{j} * {k}"])
                    # (two constants in one length; when one name extends the other, the shorter one is put first)
                    ext = [x for x in ints if x != k and x.startswith(k)]
                    j = rng.choice(ext) if ext and rng.random() < 0.7 else rng.choice(ints)
                    if form.startswith("{j}") and j.startswith(k) and j != k:
                        form = "{k} * {j}"
                    lenexpr = form.format(k=k, j=j)
                    length = eval(lenexpr, {}, {k: D.constants[k], j: D.constants[j]})
                    if not (1 <= length <= 400):
                        lenexpr = form = "{k}".format(k=k)
                        length = D.constants[k]
                    D.features.add("constant_length")
                if length == 1:
                    D.features.add("length_one")
                out.append([fn, t, lenexpr, length])
                txt.append(f"      {fn}: {t}" + (f"[{lenexpr}]" if lenexpr is not None else ""))
            return out, txt

        def depth_of(t, seen=0):
            t = D.resolve_alias(t)
            if t in D.defs:
                fs = D.defs[t]["fields"] if not D.defs[t].get("copy_of") else D.defs[D.defs[t]["copy_of"]]["fields"]
                return 1 + max([depth_of(x[1]) for x in fs] + [0])
            return 0

        local_structs = []
        for _ in range(rng.randint(0, 3)):
            n = self.nm.new("S_")
            extra = [s for s in local_structs + imported_structs if depth_of(s) < 3]
            usable_msgs = [m for m in imported_msgs if D.defs[m]["kind"] == "message" and depth_of(m) < 3]
            if self.allow_known and usable_msgs and rng.random() < 0.3:
                extra = extra + [rng.choice(usable_msgs)]
            if extra and rng.random() < 0.25 and not any(D.defs[e]["kind"] == "message" for e in extra[-1:]):
                src = rng.choice([e for e in extra if D.defs[e]["kind"] == "struct"] or extra)
                D.defs[n] = {"kind": "struct", "id": None, "fields": D.defs[src]["fields"] if not D.defs[src].get("copy_of") else D.defs[D.defs[src]["copy_of"]]["fields"],
                             "copy_of": src, "file": fname}
                sections["struct_defs"].append(f"  {n}:\n    fields: {src}")
                D.features.add("field_list_reuse")
            else:
                fl, txt = field_list(rng.randint(1, 6), extra)
                D.defs[n] = {"kind": "struct", "id": None, "fields": fl, "copy_of": None, "file": fname}
                sections["struct_defs"].append(f"  {n}:\n    fields:\n" + "\n".join(txt))
                if any(x[1] in imported_msgs for x in fl):
                    D.features.add("K2_struct_uses_imported_message")
            if struct_layout(D.tojson(), n, {})["size"] > 12000:
                del D.defs[n]
                sections["struct_defs"].pop()
                continue
            D.order.append(n)
            local_structs.append(n)
        local_msgs = []
        # (an imported file may hold types only: its message section is then written as null / left empty)
        nmsgs = 0 if (fname != getattr(self, "_root_path", None) and rng.random() < 0.1) else rng.randint(1, 4)
        if nmsgs == 0:
            D.features.add("file_without_messages")
        for _ in range(nmsgs):
            n = self.nm.new("M_")
            self.next_id += rng.randint(1, 7)
            mid = self.idmap(self.next_id)
            r = rng.random()
            extra = [s for s in local_structs + imported_structs + imported_msgs + local_msgs if depth_of(s) < 3 and D.defs[s]["kind"] != "signal"]
            if r < 0.2:
                D.defs[n] = {"kind": "signal", "id": mid, "fields": [], "copy_of": None, "file": fname}
                sections["message_defs"].append(f"  {n}:\n    id: " + (f"0x{mid:X}" if rng.random() < 0.2 else str(mid)) + "\n    fields: null")
                D.features.add("signal")
            elif r < 0.3 and extra:
                src = rng.choice(extra)
                D.defs[n] = {"kind": "message", "id": mid, "fields": D.defs[src]["fields"] if not D.defs[src].get("copy_of") else D.defs[D.defs[src]["copy_of"]]["fields"],
                             "copy_of": src, "file": fname}
                sections["message_defs"].append(f"  {n}:\n    id: {mid}\n    fields: {src}")
                D.features.add("field_list_reuse")
            else:
                fl, txt = field_list(rng.randint(1, 7), extra)
                D.defs[n] = {"kind": "message", "id": mid, "fields": fl, "copy_of": None, "file": fname}
                sections["message_defs"].append(f"  {n}:\n    id: {mid}\n    fields:\n" + "\n".join(txt))
            if D.defs[n]["kind"] != "signal" and struct_layout(D.tojson(), n, {})["size"] > 60000:
                del D.defs[n]
                sections["message_defs"].pop()
                continue
            D.order.append(n)
            local_msgs.append(n)
        if rng.random() < 0.3:
            ids, parts = [], []
            for _ in range(rng.randint(1, 3)):
                self.next_id += rng.randint(2, 5)
                a = self.next_id
                k = rng.choice(["n", "dash", "to"])
                if k == "n":
                    parts.append(str(self.idmap(a)))
                    ids.append(self.idmap(a))
                else:
                    b = a + rng.randint(0, 4)
                    self.next_id = b
                    a, b = sorted((self.idmap(a), self.idmap(b)))
                    parts.append(f"{a} - {b}" if k == "dash" else f"{a} to {b}")
                    ids += list(range(a, b + 1))
            sections["message_defs"].append(f"  _RESERVED_:\n    id: [{', '.join(parts)}]")
            D.reserved += ids
            D.features.add("reserved")
        txt = ""
        order = list(sections)
        for sec in order:
            body = sections[sec]
            txt += f"{sec}:" + (" null\n" if not body else "\n" + "\n".join(body) + "\n")
            if rng.random() < 0.3:
                txt += rng.choice(["\n", "# a comment\n", "\n\n"])
        return txt, local_structs, local_msgs

    # ---- closure
    def closure(self, shape=None):
        rng = self.rng
        k = rng.randint(1, self.max_files)
        shape = shape or rng.choice(["single", "chain", "siblings", "diamond", "respell", "symlink", "cycle", "subdirs", "random", "dirgraph"])
        if shape == "single":
            k = 1
        elif shape in ("diamond", "dirgraph"):
            k = max(k, 4)
        elif shape in ("respell", "symlink", "cycle", "chain", "siblings", "subdirs"):
            k = max(k, 2 if shape != "respell" else 3)
        names = [f"f{i}.yaml" for i in range(k)]
        if k >= 3 and shape in ("diamond", "dirgraph", "respell", "random", "symlink") and rng.random() < 0.3:
            # a user file that happens to be called like the package's own core file (the leaf everybody imports)
            names[0] = "core_defs.yaml"
            self.desc.features.add("user_file_named_core_defs")
        dirs = [""] * k
        if shape in ("subdirs", "dirgraph") or (shape in ("random", "diamond", "siblings") and rng.random() < 0.5):
            dirs = [rng.choice(["", "sub/", "sub/deep/", "other/"]) for _ in range(k)]
            dirs[-1] = ""
        paths = [dirs[i] + names[i] for i in range(k)]
        self._root_path = paths[k - 1]
        imports = {i: [] for i in range(k)}  # index -> list of imported indexes
        if shape == "chain" or (shape in ("subdirs",)):
            for i in range(1, k):
                imports[i] = [i - 1]
        elif shape == "siblings":
            imports[k - 1] = list(range(k - 1))
        elif shape == "diamond":
            imports[1], imports[2], imports[3] = [0], [0], [1, 2]
            for i in range(4, k):
                imports[i] = [i - 1]
        elif shape in ("respell", "symlink"):
            for i in range(1, k):
                imports[i] = [i - 1]
            imports[k - 1] = list(range(k - 1))
        elif shape == "cycle":
            for i in range(1, k):
                imports[i] = [i - 1]
        elif shape == "dirgraph":
            # files spread over directories, repeated imports, import lists in arbitrary order (a file that was
            # already read through another path may precede one that was not)
            for i in range(1, k):
                imports[i] = rng.sample(range(i), min(i, rng.randint(2, 3)))
            missing = sorted(set(range(k - 1)) - self._reach(imports, k - 1))
            imports[k - 1] = imports[k - 1] + missing
            rng.shuffle(imports[k - 1])
        elif shape == "random":
            for i in range(1, k):
                imports[i] = sorted(rng.sample(range(i), rng.randint(1, min(i, 2))))
            missing = set(range(k - 1)) - self._reach(imports, k - 1)
            imports[k - 1] = sorted(set(imports[k - 1]) | missing)
        # parse order = DFS from root
        order, seen = [], set()

        def dfs(i):
            if i in seen:
                return
            seen.add(i)
            for j in imports[i]:
                dfs(j)
            order.append(i)

        dfs(k - 1)
        files, visible_consts = {}, []
        structs_of, msgs_of = {}, {}
        reach_cache = {}
        for i in order:
            reach = self._reach(imports, i)
            imp_structs = [s for j in sorted(reach) for s in structs_of.get(j, [])]
            imp_msgs = [m for j in sorted(reach) for m in msgs_of.get(j, [])]
            vis = [c for j in sorted(reach) for c in reach_cache.get(j, [])]
            before = set(self.desc.constants)
            body, ls, lm = self.gen_file(paths[i], vis, imp_structs, imp_msgs)
            reach_cache[i] = [c for c in self.desc.constants if c not in before]
            structs_of[i], msgs_of[i] = ls, lm
            imp_lines = []
            for j in imports[i]:
                rel = self._rel(paths[i], paths[j])
                if shape == "respell" and rng.random() < 0.6:
                    rel = rng.choice(["./" + rel, self._respell(paths[i], paths[j])])
                imp_lines.append(f"  - {rel}")
            if shape == "cycle" and i == 0 and k >= 2:
                imp_lines.append(f"  - {self._rel(paths[0], paths[k - 1])}")
            if imp_lines and rng.random() < (0.5 if shape in ("dirgraph", "siblings", "respell") else 0.1):
                # the same file listed twice in one import list
                # (after its first occurrence, so the order in which files are first read stays the generation order)
                j0 = rng.randrange(len(imp_lines))
                imp_lines.insert(rng.randint(j0 + 1, len(imp_lines)), imp_lines[j0])
                self.desc.features.add("import_listed_twice")
            if self.use_core and rng.random() < 0.1:
                # written in the style that predates the automatic import of the core definitions: the file names the
                # package's own core_defs.yaml itself (write_closure puts the path of the package under test in)
                imp_lines.insert(rng.randint(0, len(imp_lines)), "  - @PYRTMA_CORE_DEFS@")
                self.desc.features.add("explicit_import_of_package_core_defs")
            head = "imports:" + (" null\n" if not imp_lines else "\n" + "\n".join(imp_lines) + "\n")
            if i != k - 1 and rng.random() < 0.06:
                # an imported file that still carries compiler options from the days it was compiled on its own
                # (options count in the file named on the command line only)
                body = body.rstrip("\n") + "\ncompiler_options:\n  " + rng.choice(["AUTO_PAD: false", "VALIDATE_ALIGNMENT: false", "AUTO_PAD: false\n  VALIDATE_ALIGNMENT: false"]) + "\n"
                self.desc.features.add("imported_file_with_compiler_options")
            files[paths[i]] = head + body
        # other spellings of the same YAML (per file): document markers, CRLF line ends, trailing comments, an empty
        # value instead of null, a blank before the array bracket
        import re as _re
        for rel in list(files):
            t = files[rel]
            if rng.random() < 0.12:
                t = _re.sub(r"(?m)^(      \w+: [A-Za-z_][\w ]*?)\[", r"\1 [", t)
                self.desc.features.add("spelling_blank_before_bracket")
            if rng.random() < 0.12:
                t = t.replace("fields: null", "fields:")
                self.desc.features.add("spelling_empty_fields_value")
            if rng.random() < 0.12:
                t = _re.sub(r"(?m)^(  K_\w+: [^'\n#]+)$", r"\1   # a remark", t)
                self.desc.features.add("spelling_trailing_comment")
            if rng.random() < 0.15:
                # the top-level sections in another order than the template's (the grammar fixes none)
                parts = _re.split(r"(?m)^(?=[a-z_]+:)", t)
                if len(parts) > 2:
                    blocks = [b if b.endswith("\n") else b + "\n" for b in parts[1:]]
                    rng.shuffle(blocks)
                    t = parts[0] + "".join(blocks)
                    self.desc.features.add("spelling_sections_reordered")
            if rng.random() < 0.1:
                t = "---\n" + t + "...\n"
                self.desc.features.add("spelling_document_markers")
            if rng.random() < 0.08:
                t = t.replace("\n", "\r\n")
                self.desc.features.add("spelling_crlf")
            files[rel] = t
        if rng.random() < 0.08:
            # a hand-written leaf file from older times that declares its YAML version; the root imports it first
            cname = self.nm.new("K_LEGACY_")
            self.desc.constants[cname], self.desc.const_expr[cname] = 7, "7"
            files["legacy_units.yaml"] = f"%YAML 1.1\n---\nconstants:\n  {cname}: 7\n"
            rootp = paths[k - 1]
            rel = self._rel(rootp, "legacy_units.yaml")
            t = files[rootp]
            nl = "\r\n" if "\r\n" in t else "\n"
            if "imports: null" in t:
                t = t.replace("imports: null", f"imports:{nl}  - {rel}", 1)
            else:
                t = t.replace("imports:" + nl, f"imports:{nl}  - {rel}{nl}", 1)
            if rel in t:
                files[rootp] = t
                self.desc.features.add("imports_file_with_yaml11_directive")
            else:
                del files["legacy_units.yaml"], self.desc.constants[cname], self.desc.const_expr[cname]
        symlinks = {}
        if shape == "symlink" and k >= 2:
            # root additionally imports f0 through a symlinked duplicate path
            symlinks["dup_f0.yaml"] = paths[0]
            files[paths[k - 1]] = files[paths[k - 1]].replace("imports:\n", "imports:\n  - dup_f0.yaml\n", 1)
        self.desc.features.add("shape_" + shape)
        return {"files": files, "root": paths[k - 1], "symlinks": symlinks, "desc": self.desc.tojson(), "shape": shape, "nfiles": k, "use_core": self.use_core}

    @staticmethod
    def _reach(imports, i):
        out, stack = set(), list(imports[i])
        while stack:
            j = stack.pop()
            if j not in out:
                out.add(j)
                stack += imports[j]
        return out

    @staticmethod
    def _rel(frm, to):
        import os
        return os.path.relpath(to, os.path.dirname(frm) or ".").replace("\\", "/")

    @staticmethod
    def _respell(frm, to):
        import os
        rel = os.path.relpath(to, os.path.dirname(frm) or ".")
        return "zz/../" + rel


def write_closure(prog, root_dir):
    import os
    from pathlib import Path
    root_dir = Path(root_dir)
    core = os.environ.get("VF_REPO", "/repo") + "/src/pyrtma/core_defs/core_defs.yaml"
    for rel, text in prog["files"].items():
        p = root_dir / rel
        p.parent.mkdir(parents=True, exist_ok=True)
        p.write_text(text.replace("@PYRTMA_CORE_DEFS@", core))
    if any("zz/../" in t for t in prog["files"].values()):
        for rel in prog["files"]:
            (root_dir / rel).parent.joinpath("zz").mkdir(exist_ok=True)
    for link, target in prog.get("symlinks", {}).items():
        lp = root_dir / link
        if not lp.exists():
            os.symlink(root_dir / target, lp)
    return root_dir / prog["root"]


def gen_program(seed, **kw):
    rng = random.Random(seed)
    shape = kw.pop("shape", None)
    g = Gen(rng, **kw)
    return g.closure(shape)
