"""Driver: shards a tier's case list over worker processes, merges monitor counters, applies the
known-findings classifier, writes evidence, prints VIOLATION / KNOWN-FINDING lines, sets exit code.

Exit codes: 0 held (possibly with KNOWN-FINDING lines), 1 violation, 2 inconclusive.
"""
from __future__ import annotations

import hashlib
import importlib
import json
import os
import shutil
import subprocess
import sys
import time
from pathlib import Path

ROOT = Path(os.environ.get("VF_ROOT", Path(__file__).resolve().parent.parent))
PY = "/venv/bin/python"


def load_check(cid: str):
    return importlib.import_module(f"vf.checks.{cid.lower()}")


def sig_of(obj) -> str:
    return hashlib.sha1(json.dumps(obj, sort_keys=True, default=str).encode()).hexdigest()[:12]


def load_known():
    p = ROOT / "known_findings.json"
    if not p.exists():
        return []
    return json.loads(p.read_text()).get("findings", [])


class Merge:
    def __init__(self):
        self.counters = {}
        self.sets = {}
        self.samples = []
        self.violations = []
        self.inconclusive = []
        self.evaluations = 0
        self.sigs = set()

    def add(self, res):
        self.evaluations += 1
        for k, v in (res.get("counters") or {}).items():
            self.counters[k] = self.counters.get(k, 0) + v
        for k, v in (res.get("sets") or {}).items():
            s = self.sets.setdefault(k, set())
            for x in v:
                s.add(json.dumps(x, sort_keys=True) if not isinstance(x, (str, int)) else x)
        if res.get("nontrivial") and res.get("sig"):
            self.sigs.add(res["sig"])
        if res.get("sample") is not None and len(self.samples) < 4:
            self.samples.append(res["sample"])
        for v in res.get("violations") or []:
            v = dict(v)
            v["case"] = res.get("case")
            self.violations.append(v)
        if res.get("inconclusive"):
            self.inconclusive.append(str(res["inconclusive"]))


def run_workers(cid, cases, tier, jobs, shard_timeout, xdev=False, scratch=None):
    scratch = scratch or (ROOT / ".scratch" / f"{cid}-{os.getpid()}")
    scratch.mkdir(parents=True, exist_ok=True)
    jobs = max(1, min(jobs, len(cases)))
    shards = [cases[i::jobs] for i in range(jobs)]
    procs = []
    env = dict(os.environ)
    env["VF_SCRATCH"] = str(scratch)
    for i, sh in enumerate(shards):
        inp = scratch / f"in{i}.json"
        out = scratch / f"out{i}.jsonl"
        inp.write_text(json.dumps({"check": cid, "tier": tier, "cases": sh}))
        cmd = [PY, "-X", "faulthandler"]
        if xdev:
            cmd += ["-X", "dev", "-W", "ignore"]
        cmd += ["-m", "vf.worker", str(inp), str(out)]
        log = open(scratch / f"log{i}.txt", "wb")
        p = subprocess.Popen(cmd, stdin=subprocess.DEVNULL, stdout=log, stderr=subprocess.STDOUT, env=env, cwd=str(ROOT))
        procs.append((p, out, log, scratch / f"log{i}.txt", len(sh)))
    deadline = time.time() + shard_timeout
    results, problems = [], []
    for p, out, log, logpath, n in procs:
        try:
            p.wait(timeout=max(1, deadline - time.time()))
        except subprocess.TimeoutExpired:
            p.kill()
            p.wait()
            problems.append(f"worker watchdog fired after {shard_timeout}s")
        log.close()
        got = 0
        if out.exists():
            for line in out.read_text().splitlines():
                if line.strip():
                    try:
                        results.append(json.loads(line))
                        got += 1
                    except Exception:
                        problems.append("unparsable worker result line")
        if got != n:
            tail = logpath.read_text(errors="replace")[-1500:] if logpath.exists() else ""
            problems.append(f"worker returned {got}/{n} results (rc={p.returncode}); log tail: {tail}")
    return results, problems, scratch


def main_run(cid, tier, seed, jobs=None, replay=None):
    t0 = time.time()
    mod = load_check(cid)
    jobs = jobs or int(os.environ.get("VERIF_JOBS", "16"))
    known = [k for k in load_known() if k.get("property") == cid]
    if replay:
        case = json.loads(Path(replay).read_text())
        case = case.get("case", case)
        from vf import worker

        # a replay gets the same environment as a case of a normal run: its own scratch directory and the shared
        # fixtures the check builds in prepare()
        scratch0 = ROOT / ".scratch" / f"{cid}-replay-{os.getpid()}"
        scratch0.mkdir(parents=True, exist_ok=True)
        os.environ["VF_SCRATCH"] = str(scratch0)
        try:
            if hasattr(mod, "prepare"):
                mod.prepare(tier, seed, scratch0)
            res = worker.run_one(mod, case, tier)
        finally:
            shutil.rmtree(scratch0, ignore_errors=True)
        print(json.dumps(res, indent=1, default=str)[:20000])
        vs = res.get("violations") or []
        for v in vs:
            kk = match_known(v, known)
            if kk:
                print(f"KNOWN-FINDING: property={cid} {kk['what']}")
            else:
                print(f"VIOLATION property={cid} replay={replay}")
        return 1 if any(not match_known(v, known) for v in vs) else 0

    scratch0 = ROOT / ".scratch" / f"{cid}-{os.getpid()}"
    scratch0.mkdir(parents=True, exist_ok=True)
    os.environ["VF_SCRATCH"] = str(scratch0)
    prep_problem = None
    if hasattr(mod, "prepare"):
        try:
            mod.prepare(tier, seed, scratch0)
        except Exception as e:  # the shared fixture could not be built from the working tree
            import traceback
            prep_problem = "prepare() failed: " + traceback.format_exc()[-1500:]
    cases = [] if prep_problem else mod.gen_cases(tier, seed)
    for i, c in enumerate(cases):
        c.setdefault("n", i)
    timeout = getattr(mod, "SHARD_TIMEOUT", {"quick": 600, "thorough": 7200})[tier]
    xdev = tier == "thorough" and getattr(mod, "XDEV", False)
    if cases:
        results, problems, scratch = run_workers(cid, cases, tier, jobs, timeout, xdev, scratch0)
    else:
        results, problems, scratch = [], [prep_problem or "no cases generated"], scratch0
    m = Merge()
    for r in results:
        m.add(r)
    m.inconclusive.extend(problems)

    # post-merge hook (cross-case checks, e.g. hash equality across processes)
    if hasattr(mod, "post_merge"):
        extra = mod.post_merge(results, tier, seed)
        for v in extra.get("violations", []):
            m.violations.append(v)
        for k, v in extra.get("counters", {}).items():
            m.counters[k] = m.counters.get(k, 0) + v
        m.inconclusive.extend(extra.get("inconclusive", []))

    # minimum-observation requirements: a deciding monitor that was never reached => inconclusive
    req = getattr(mod, "REQUIRE", {})
    req = req.get(tier, req) if isinstance(req.get("quick", None), dict) else req
    for k, mn in req.items():
        have = m.counters.get(k, len(m.sets.get(k, ())))
        if have < mn:
            m.inconclusive.append(f"monitor counter {k}={have} below required minimum {mn}")

    # classify
    unknown, known_hits = [], {}
    for v in m.violations:
        kk = match_known(v, known)
        if kk:
            known_hits.setdefault(kk.get("id") or kk.get("key"), [kk, 0])[1] += 1
        else:
            unknown.append(v)

    rc = 0
    for key, (kk, n) in sorted(known_hits.items()):
        print(f"KNOWN-FINDING: property={cid} {kk['what']} [mechanism={key}; {n} occurrence(s) this run]")
    if unknown:
        rc = 1
        rdir = ROOT / "replays"
        rdir.mkdir(exist_ok=True)
        for old in rdir.glob(f"{cid}-*.json"):
            old.unlink()
        seen = set()
        for v in unknown:
            mech = v.get("mech", "?")
            if mech in seen:
                continue
            seen.add(mech)
            path = rdir / f"{cid}-{sig_of([v.get('case'), mech])}.json"
            path.write_text(json.dumps({"property": cid, "violation": {k: v[k] for k in v if k != 'case'}, "case": v.get("case")}, indent=1, default=str))
            print(f"VIOLATION property={cid} replay={path}")
            print(f"  mechanism={mech}: {str(v.get('detail'))[:600]}")
        print(f"  ({len(unknown)} violating observation(s), {len(seen)} distinct mechanism(s))")
        if os.environ.get("VF_DEBUG"):
            for v in unknown[:int(os.environ["VF_DEBUG"]) if os.environ["VF_DEBUG"].isdigit() else 200]:
                print("   DBG", v.get("mech"), "|", str(v.get("detail"))[:300])
    elif m.inconclusive:
        rc = 2
        for r in m.inconclusive[:10]:
            print(f"INCONCLUSIVE property={cid}: {r[:1200]}")

    cov = {
        "evaluations": m.evaluations,
        "distinct_nontrivial": len(m.sigs),
        "rule": getattr(mod, "RULE", ""),
        "samples": m.samples or [{"note": "no case produced a sample"}],
        "counters": dict(sorted(m.counters.items())),
        "distinct": {k: len(v) for k, v in sorted(m.sets.items())},
        "known_findings_hit": {k: n for k, (kk, n) in known_hits.items()},
        "verdict": "violated" if rc == 1 else ("inconclusive" if rc == 2 else "held on what was observed"),
    }
    if m.inconclusive:
        cov["inconclusive_reasons"] = m.inconclusive[:20]
    if hasattr(mod, "coverage_extra"):
        cov.update(mod.coverage_extra(m, tier))
    ev = {
        "property_id": cid,
        "tier": tier,
        "seed": int(seed),
        "level": getattr(mod, "LEVEL", "exploration"),
        "coverage": cov,
        "assumptions": getattr(mod, "ASSUMPTIONS", []),
        "wall_s": round(time.time() - t0, 2),
        "violations": len(unknown),
    }
    edir = ROOT / "evidence"
    edir.mkdir(exist_ok=True)
    (edir / f"{cid}.json").write_text(json.dumps(ev, indent=1, default=str) + "\n")
    shutil.rmtree(scratch, ignore_errors=True)
    try:
        (ROOT / ".scratch").rmdir()
    except OSError:
        pass
    print(f"{cid} {tier} seed={seed}: {m.evaluations} cases, {len(m.sigs)} distinct non-trivial, "
          f"{len(unknown)} violations, {sum(n for _, n in known_hits.values())} known-finding hits, "
          f"{ev['wall_s']}s -> {cov['verdict']}")
    return rc


def match_known(v, known):
    for k in known:
        if k.get("status") != "known":
            continue
        if k.get("key") is not None and v.get("mech") == k["key"]:
            return k
        if k.get("key_prefix") and str(v.get("mech", "")).startswith(k["key_prefix"]):
            return k
    return None
