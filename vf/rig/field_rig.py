"""FieldRig: message classes covering every validator kind at every width, produced by the real compiler from
a synthetic YAML; plus an independent description (kind table) of every field, written from the YAML we
generate ourselves (not read back from the subject)."""
from __future__ import annotations

import importlib
import json
import os
import subprocess
import sys
from pathlib import Path

INTS = [("int8", 8, True), ("uint8", 8, False), ("int16", 16, True), ("uint16", 16, False), ("int32", 32, True),
        ("uint32", 32, False), ("int64", 64, True), ("uint64", 64, False)]
DEPRECATED = [("int", 32, True), ("unsigned int", 32, False), ("short", 16, True), ("unsigned short", 16, False),
              ("long", 32, True), ("unsigned long", 32, False), ("long long", 64, True), ("unsigned long long", 64, False),
              ("signed int", 32, True), ("unsigned", 32, False), ("signed short", 16, True), ("signed long", 32, True),
              ("signed long long", 64, True)]
LENGTHS = [2, 3, 8, 33]


def yaml_text():
    L = []
    L.append("struct_defs:")
    L.append("  FINNER:\n    fields:\n      a: int32\n      b: float\n      s: char[8]\n      u: uint16[3]")
    L.append("  FMIDDLE:\n    fields:\n      inner: FINNER\n      arr: FINNER[2]\n      d: double\n      c: char")
    L.append("  FOUTER:\n    fields:\n      mid: FMIDDLE\n      mids: FMIDDLE[2]\n      k: int64")
    L.append("message_defs:")
    L.append("  FSCALARS:\n    id: 3000\n    fields:")
    kinds = {"FSCALARS": {}, "FDEPRECATED": {}, "FNESTED": {}}
    for name, bits, signed in INTS:
        L.append(f"      f_{name}: {name}")
        kinds["FSCALARS"][f"f_{name}"] = ["int", bits, signed]
    L.append("      f_float: float\n      f_double: double\n      f_char: char\n      f_byte: byte\n      f_uchar: unsigned char")
    kinds["FSCALARS"].update({"f_float": ["float", 32], "f_double": ["float", 64], "f_char": ["char"], "f_byte": ["byte"], "f_uchar": ["byte"]})
    L.append("  FDEPRECATED:\n    id: 3001\n    fields:")
    for i, (name, bits, signed) in enumerate(DEPRECATED):
        L.append(f"      d{i}: {name}")
        kinds["FDEPRECATED"][f"d{i}"] = ["int", bits, signed]
        L.append(f"      da{i}: {name}[3]")
        kinds["FDEPRECATED"][f"da{i}"] = ["intarray", bits, signed, 3]
    for n in LENGTHS:
        cname = f"FARRAYS{n}"
        kinds[cname] = {}
        L.append(f"  {cname}:\n    id: {3010 + n}\n    fields:")
        for name, bits, signed in INTS:
            L.append(f"      a_{name}: {name}[{n}]")
            kinds[cname][f"a_{name}"] = ["intarray", bits, signed, n]
        L.append(f"      a_float: float[{n}]\n      a_double: double[{n}]\n      a_str: char[{n}]\n      a_bytes: byte[{n}]")
        kinds[cname].update({"a_float": ["floatarray", 32, n], "a_double": ["floatarray", 64, n], "a_str": ["string", n],
                             "a_bytes": ["bytearray", n]})
    L.append("  FNESTED:\n    id: 3100\n    fields:\n      outer: FOUTER\n      outers: FOUTER[2]\n      inner: FINNER\n      inners: FINNER[3]\n      tail: int16")
    inner = {"a": ["int", 32, True], "b": ["float", 32], "s": ["string", 8], "u": ["intarray", 16, False, 3]}
    middle = {"inner": ["struct", "FINNER", inner], "arr": ["structarray", "FINNER", 2, inner], "d": ["float", 64], "c": ["char"]}
    outer = {"mid": ["struct", "FMIDDLE", middle], "mids": ["structarray", "FMIDDLE", 2, middle], "k": ["int", 64, True]}
    kinds["FNESTED"] = {"outer": ["struct", "FOUTER", outer], "outers": ["structarray", "FOUTER", 2, outer],
                        "inner": ["struct", "FINNER", inner], "inners": ["structarray", "FINNER", 3, inner], "tail": ["int", 16, True]}
    # packet-style messages whose own fields are called like the two halves of a serialised Message
    L.append("  FPACKET:\n    id: 3200\n    fields:\n      header: FINNER\n      data: byte[16]")
    L.append("  FPACKET2:\n    id: 3201\n    fields:\n      header: int32\n      data: double\n      dataset: int16[4]")
    kinds["FPACKET"] = {"header": ["struct", "FINNER", inner], "data": ["bytearray", 16]}
    kinds["FPACKET2"] = {"header": ["int", 32, True], "data": ["float", 64], "dataset": ["intarray", 16, True, 4]}
    return "\n".join(L) + "\n", kinds


def build(scratch: Path):
    """compile the synthetic YAML with the real compiler (fresh process, stdin closed); returns module dir"""
    d = Path(scratch) / "fielddefs"
    d.mkdir(parents=True, exist_ok=True)
    text, kinds = yaml_text()
    (d / "vf_fields.yaml").write_text(text)
    (d / "kinds.json").write_text(json.dumps(kinds))
    env = dict(os.environ)
    r = subprocess.run([sys.executable, "-m", "pyrtma.compile", "-i", str(d / "vf_fields.yaml"), "-o", str(d), "--py"],
                       stdin=subprocess.DEVNULL, capture_output=True, text=True, env=env, timeout=120)
    if r.returncode != 0 or not (d / "vf_fields.py").exists():
        raise RuntimeError(f"compiling the field fixture failed rc={r.returncode}: {r.stdout[-800:]} {r.stderr[-800:]}")
    return d


def build_twin(scratch: Path):
    """a second definition file with the same struct and message names as the fixture but other fields (every
    definition gets a new first field) and other ids, as two rigs of one lab would have"""
    import re
    d = Path(scratch) / "fielddefs"
    d.mkdir(parents=True, exist_ok=True)
    text, _ = yaml_text()
    text = text.replace("    fields:\n", "    fields:\n      zz_first: double\n")
    text = re.sub(r"    id: (\d+)", lambda m: f"    id: {int(m.group(1)) + 700}", text)
    (d / "vf_fields_twin.yaml").write_text(text)
    r = subprocess.run([sys.executable, "-m", "pyrtma.compile", "-i", str(d / "vf_fields_twin.yaml"), "-o", str(d), "--py"],
                       stdin=subprocess.DEVNULL, capture_output=True, text=True, env=dict(os.environ), timeout=120)
    if r.returncode != 0 or not (d / "vf_fields_twin.py").exists():
        raise RuntimeError(f"compiling the twin fixture failed rc={r.returncode}: {r.stdout[-800:]} {r.stderr[-800:]}")
    return d


def load_twin(scratch=None):
    d = Path(scratch or os.environ["VF_SCRATCH"]) / "fielddefs"
    if str(d) not in sys.path:
        sys.path.insert(0, str(d))
    return importlib.import_module("vf_fields_twin")


def load(scratch=None):
    d = Path(scratch or os.environ["VF_SCRATCH"]) / "fielddefs"
    if str(d) not in sys.path:
        sys.path.insert(0, str(d))
    mod = importlib.import_module("vf_fields")
    kinds = json.loads((d / "kinds.json").read_text())
    return mod, kinds
