"""CompilerRig: writes a generated closure, runs the real compiler in a fresh process, loads every output with
its language loader and returns the canonical descriptions."""
from __future__ import annotations

import os
import shutil
from pathlib import Path

from vf.gen import defs as G
from vf.loaders import langs as L


def prelude_path():
    return Path(os.environ["VF_SCRATCH"]) / "prelude" / "vf_core_prelude.h"


def prepare_prelude(scratch):
    return L.build_prelude(scratch)


class Built:
    pass


def build(prog, work: Path, langs=("py", "c", "js", "mat", "combined", "info"), name="out", cli=True, hashseed=None, cwd=None, extra=()):
    work = Path(work)
    if work.exists():
        shutil.rmtree(work, ignore_errors=True)
    src = work / "src"
    out = work / "out"
    out.mkdir(parents=True)
    root = G.write_closure(prog, src)
    rc, text = L.compile_closure(root, out, name=name, langs=langs, cli=cli, hashseed=hashseed, cwd=cwd, extra=extra)
    b = Built()
    b.rc, b.text, b.root, b.out, b.work, b.name = rc, text, root, out, work, name
    b.failure = None if rc == 0 else L.classify_compile_failure(rc, text)
    return b


def load_all(b, sanitize=False, want=("py", "c", "js", "mat")):
    sc = b.work / "load"
    sc.mkdir(exist_ok=True)
    res = {}
    if "c" in want:
        res["c"] = L.load_c(b.out / f"{b.name}.h", prelude_path(), sc, sanitize=sanitize)
    if "py" in want:
        samples = res.get("c", {}).get("samples") if res.get("c", {}).get("ok") else None
        res["py"] = L.load_py(b.out / f"{b.name}.py", sc, samples)
    if "js" in want:
        res["js"] = L.load_js(b.out / f"{b.name}.js", sc)
    if "mat" in want:
        res["mat"] = L.load_matlab(b.out / f"{b.name}.m")
    return res
