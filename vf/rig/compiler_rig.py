"""CompilerRig: writes a generated closure, runs the real compiler in a fresh process, loads every output with
its language loader and returns the canonical descriptions."""
from __future__ import annotations

import os
import shutil
from pathlib import Path

from vf.gen import defs as G
from vf.loaders import langs as L


def prelude_path():
    return Path(os.environ["VF_SCRATCH"]) / "prelude" / "vf_core_prelude.h"


def prepare_prelude(scratch):
    return L.build_prelude(scratch)


class Built:
    pass


def sibling_of(prog):
    """the same files and names with other meanings behind them (a second rig's, or yesterday's, version of the definitions):
    native types behind aliases and fields swapped, simple integer constants one larger. Definitions that only name
    aliases, constants and other structs keep their text while their layout changes."""
    import re
    swap = {"int16": "int32", "int32": "int16", "float": "double", "double": "float", "uint8": "uint16", "uint16": "uint8",
            "int64": "int32", "uint32": "uint64", "uint64": "uint32", "int8": "int16"}
    files = {}
    for f, t in prog["files"].items():
        t = re.sub(r"(?m)^(  [A-Za-z_]\w*: )(u?int(?:8|16|32|64)|float|double)[ \t]*$", lambda m: m.group(1) + swap.get(m.group(2), m.group(2)), t)
        t = re.sub(r"(?m)^(  K_\w+: )(\d{1,2})[ \t]*$", lambda m: m.group(1) + str(int(m.group(2)) + 1), t)
        files[f] = t
    return dict(prog, files=files)


def build(prog, work: Path, langs=("py", "c", "js", "mat", "combined", "info"), name="out", cli=True, hashseed=None, cwd=None, extra=(), before=None):
    work = Path(work)
    if work.exists():
        shutil.rmtree(work, ignore_errors=True)
    src = work / "src"
    out = work / "out"
    out.mkdir(parents=True)
    root = G.write_closure(prog, src)
    if before is not None:
        # one interpreter compiles another closure first (its failure, if any, is its own business), then this one
        root0 = G.write_closure(before, work / "before" / "src")
        (work / "before" / "out").mkdir(parents=True)
        kw = {"python": "py" in langs, "javascript": "js" in langs, "matlab": "mat" in langs, "c_lang": "c" in langs, "info": "info" in langs,
              "combined": "combined" in langs}
        code = ("import sys\nfrom pyrtma.compile import compile\nfrom pyrtma.parser import ParserError\n"
                f"try:\n    compile([{str(root0)!r}], {str(work / 'before' / 'out')!r}, {name!r}, **{kw!r})\nexcept BaseException:\n    pass\n"
                f"try:\n    compile([{str(root)!r}], {str(out)!r}, {name!r}, **{kw!r})\n"
                "except ParserError as e:\n    print('PARSER_ERROR', type(e).__name__, str(e)[:300]); sys.exit(1)\n"
                "except Exception as e:\n    import traceback; traceback.print_exc(); print('INTERNAL_ERROR', type(e).__name__, str(e)[:300]); sys.exit(3)\n")
        r = L.run([L.PY, "-c", code], cwd=cwd)
        rc, text = r.returncode, r.stdout + r.stderr
    else:
        rc, text = L.compile_closure(root, out, name=name, langs=langs, cli=cli, hashseed=hashseed, cwd=cwd, extra=extra)
    b = Built()
    b.rc, b.text, b.root, b.out, b.work, b.name = rc, text, root, out, work, name
    b.failure = None if rc == 0 else L.classify_compile_failure(rc, text)
    return b


def load_all(b, sanitize=False, want=("py", "c", "js", "mat")):
    sc = b.work / "load"
    sc.mkdir(exist_ok=True)
    res = {}
    if "c" in want:
        res["c"] = L.load_c(b.out / f"{b.name}.h", prelude_path(), sc, sanitize=sanitize)
    if "py" in want:
        samples = res.get("c", {}).get("samples") if res.get("c", {}).get("ok") else None
        res["py"] = L.load_py(b.out / f"{b.name}.py", sc, samples)
    if "js" in want:
        res["js"] = L.load_js(b.out / f"{b.name}.js", sc)
    if "mat" in want:
        res["mat"] = L.load_matlab(b.out / f"{b.name}.m")
    return res
