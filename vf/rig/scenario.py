"""Scenario engine: executes a JSON step list against a stepped ManagerRig with raw WireClients, keeps the
RouterModel in lock-step with the *recorded* service order, and collects what every connection received.

Step descriptors (all JSON):
  ["open", L]                          TCP connect (accepted by the manager in a later round)
  ["hello", L, {opts}]                 handshake frames: v2 (CONNECT_V2 then CONNECT) or v1 (CONNECT only)
  ["sub"|"unsub"|"pause"|"resume", L, t]
  ["pub", L, t, dest_mod, dest_host, size]      dest_mod may be "@L2" (= L2's module id)
  ["disc", L]                          DISCONNECT frame
  ["close", L, "fin"|"rst"]            close the socket (manager sees EOF / reset when it services it)
  ["name", L, hex] ["ready", L, pid]   CLIENT_SET_NAME / MODULE_READY
  ["raw", L, hex, nframes, note]       arbitrary bytes counted as nframes complete frames (faults)
  ["round", {order:[L..]|None, seed:int, nw:[L..], adv:float, only:[L..]}]
  ["drain"]                            rounds until nothing is pending
"""
from __future__ import annotations

import random
import struct
import time
from collections import deque

from . import wire as W
from .manager_rig import ManagerRig, Plan
from ..models.router import RouterModel, ALL

PUB_BASE = 2_000_000_000


class CState:
    def __init__(self, label, wc):
        self.label = label
        self.wc = wc
        self.addr = tuple(wc.local)
        self.pending = deque()
        self.mod_id = None
        self.hello = None       # outcome of the handshake: 'ack' | 'closed' | None
        self.accepted = False
        self.closed_by_us = None
        self.closed_round = None
        self.dropped = False    # model/observation says the manager removed it
        self.sent_frames = 0
        self.consumed = 0
        self.pre_ctl = 0        # control frames served before the handshake (each answered by an ACK addressed to module 0)


def pub_payload(pub_id, size):
    if size <= 0:
        return b""
    # position-dependent content: a forwarded payload that is shifted, permuted or partly stale cannot equal it
    unit = struct.pack("<Q", pub_id)
    if size <= 16:
        return (unit * 3)[:size]
    return (unit + random.Random(pub_id).randbytes(size - 8))[:size]


class Scenario:
    def __init__(self, rig: ManagerRig, seed=0):
        self.rig = rig
        self.rng = random.Random(seed)
        self.model = RouterModel()
        self.cl = {}
        self.by_addr = {}
        self.accept_q = deque()
        self.rounds = []
        self.vary_source = False
        self.pubs = {}
        self.npub = 0
        self.crashed = False
        self.hung = False
        self.notes = []
        self.problems = []   # things that make the case undecidable for routing oracles
        self.ctl_log = []    # (round, label, kind, arg, expects_ack)
        self.max_drain = 64

    # ------------------------------------------------------------------ issuing
    def open(self, L):
        wc = self.rig.client(L)
        cs = CState(L, wc)
        self.cl[L] = cs
        self.by_addr[cs.addr] = cs
        self.accept_q.append(cs)
        return cs

    def _send(self, cs, data, desc, nframes=1):
        try:
            cs.wc.send_raw(data)
        except OSError as e:
            self.notes.append(f"send on {cs.label} failed: {e!r}")
            return False
        for _ in range(nframes):
            cs.pending.append(desc)
            desc = dict(desc, cont=True) if nframes > 1 else desc
        cs.sent_frames += nframes
        return True

    def _hdr(self, cs, t, payload, **kw):
        kw.setdefault("msg_count", cs.sent_frames)
        kw.setdefault("src_mod", cs.mod_id or 0)
        kw.setdefault("send_time", 1.0)
        return W.frame_bytes(t, payload, timecode=self.rig.timecode, **kw)

    def resolve_mod(self, v):
        if isinstance(v, str) and v.startswith("@"):
            return self.cl[v[1:]].mod_id or 0
        return v

    def issue(self, st):
        k = st[0]
        if k == "open":
            self.open(st[1])
            return
        cs = self.cl[st[1]]
        if k == "hello":
            o = dict(st[2])
            mod_id, logger, daemon = o.get("mod_id", 0), int(o.get("logger", 0)), int(o.get("daemon", 0))
            am, name, pid = int(o.get("allow_multiple", 0)), o.get("name", ""), o.get("pid", 4242)
            nb = name.encode("latin1") if isinstance(name, str) else bytes(name)
            if o.get("v2", True):
                d = {"kind": "hello_v2", "mod_id": mod_id, "logger": logger, "daemon": daemon, "am": am,
                     "name": name, "pid": pid}
                self._send(cs, self._hdr(cs, W.MT_CONNECT_V2, W.p_connect_v2(logger, daemon, am, mod_id, pid, nb),
                                         src_mod=mod_id), d)
                if o.get("v1_after", True):
                    self._send(cs, self._hdr(cs, W.MT_CONNECT, W.p_connect(logger, daemon), src_mod=mod_id),
                               {"kind": "hello_v1", "mod_id": mod_id, "logger": logger, "daemon": daemon})
            else:
                self._send(cs, self._hdr(cs, W.MT_CONNECT, W.p_connect(logger, daemon), src_mod=mod_id),
                           {"kind": "hello_v1", "mod_id": mod_id, "logger": logger, "daemon": daemon})
        elif k in ("sub", "unsub", "pause", "resume"):
            t = st[2]
            mt = {"sub": W.MT_SUBSCRIBE, "unsub": W.MT_UNSUBSCRIBE, "pause": W.MT_PAUSE, "resume": W.MT_RESUME}[k]
            kw = {}
            if self.vary_source:
                # the source field of a request is whatever the sender wrote (a relay, a C peer): the manager knows
                # who is asking from the connection
                kw["src_mod"] = [cs.mod_id or 0, cs.mod_id or 0, 0, 37, 11, 32767, -1][(cs.sent_frames * 3 + len(cs.label)) % 7]
            self._send(cs, self._hdr(cs, mt, W.p_sub(t), **kw), {"kind": k, "t": t})
        elif k == "pub":
            _, L, t, dm, dh, size = st[:6]
            dm = self.resolve_mod(dm)
            self.npub += 1
            pid_ = PUB_BASE + self.npub
            payload = pub_payload(pid_, size)
            src_host, src_mod = 3, cs.mod_id or 0
            if self.vary_source:
                # a relay re-publishes with the original header: the source fields are whatever the publisher wrote
                h = (pid_ * 2246822519) & 0xFFFFFFFF
                src_mod = [src_mod, src_mod, 0, 55, 32767, -1, 200, 1][h % 8]
                src_host = [3, 3, 0, -1, 32767, 5][(h >> 8) % 6]
            hdr_kw = dict(send_time=float(pid_), recv_time=float(pid_) + 0.25, src_host=src_host, src_mod=src_mod,
                          dest_host=dh, dest_mod=dm, remaining=0x1234567, is_dynamic=0x7654321,
                          reserved=(pid_ * 2654435761) & 0xFFFFFFFF)
            if self.rig.timecode:
                hdr_kw["tc"] = (pid_ & 0xFFFFFFFF, 77)
            data = self._hdr(cs, t, payload, **hdr_kw)
            fr = W.parse_frames(data, self.rig.timecode)[0][0]
            self.pubs[pid_] = {"id": pid_, "by": L, "t": t, "dm": dm, "dh": dh, "size": size, "key": fr.key(),
                               "must": None, "may": None, "round": None, "seq": cs.sent_frames}
            self._send(cs, data, {"kind": "pub", "id": pid_, "t": t, "dm": dm, "dh": dh})
        elif k == "disc":
            self._send(cs, self._hdr(cs, W.MT_DISCONNECT, b""), {"kind": "disc"})
        elif k == "close":
            how = st[2] if len(st) > 2 else "fin"
            self.rig.settle()  # everything written to this client so far is in its byte log before we close
            cs.closed_by_us = how
            cs.closed_round = len(self.rounds)
            cs.wc.close(rst=(how == "rst"))
            cs.pending.append({"kind": "eof", "how": how})
            m = self.model.get(cs.addr)
            if m:
                m.fin = True
        elif k == "await_closed":
            if not self.rig.wait_peer_readable(cs.addr):
                self.problems.append(f"close of {cs.label} never reached the manager's socket")
        elif k == "name":
            nb = bytes.fromhex(st[2])
            self._send(cs, self._hdr(cs, W.MT_CLIENT_SET_NAME, struct.pack("<32s", nb)), {"kind": "name", "name": nb.hex()})
        elif k == "ready":
            self._send(cs, self._hdr(cs, W.MT_MODULE_READY, struct.pack("<i", st[2])), {"kind": "ready", "pid": st[2]})
        elif k == "raw":
            data = bytes.fromhex(st[2])
            n = st[3]
            self._send(cs, data, {"kind": "raw", "note": st[4] if len(st) > 4 else ""}, nframes=n)
        else:
            raise ValueError(f"unknown step {st!r}")

    # ------------------------------------------------------------------ rounds
    def any_pending(self):
        return bool(self.accept_q) or any(c.pending and not c.dropped for c in self.cl.values())

    def round(self, opt=None):
        opt = opt or {}
        only = opt.get("only")
        ready = [c for c in self.cl.values() if c.pending and c.accepted and not c.dropped
                 and (only is None or c.label in only)]
        accept = bool(self.accept_q) and not opt.get("no_accept", False)
        order = opt.get("order")
        if order is not None:
            order_addrs = [self.cl[L].addr for L in order if L in self.cl]
            perm_seed = None
        else:
            order_addrs = None
            perm_seed = opt.get("seed", self.rng.getrandbits(30))
        nw = [self.cl[L].addr for L in opt.get("nw", ()) if L in self.cl]
        plan = Plan([c.addr for c in ready], accept, order_addrs, nw, float(opt.get("adv", 0.0)), perm_seed)
        res = self.rig.step(plan)
        rec = {"n": len(self.rounds), "order": [], "accepted": None, "nw": list(opt.get("nw", ())), "frames": [],
               "adv": float(opt.get("adv", 0.0)), "ready": [c.label for c in ready]}
        self.rounds.append(rec)
        if res is None or self.rig.dead:
            self.crashed = self.rig.crash is not None or self.rig.dead
            self.hung = not self.crashed
            rec["dead"] = True
            if res is None:
                return rec
        if res.ready_timeout:
            self.problems.append(f"round {rec['n']}: prescribed ready set never became readable")
        if res.accepted and self.accept_q:
            cs = self.accept_q.popleft()
            cs.accepted = True
            self.model.accept(cs.addr)
            rec["accepted"] = cs.label
        for a in res.skipped:
            cs = self.by_addr.get(tuple(a))
            if cs:
                cs.pending.clear()
                cs.dropped = True
                self.model.remove(cs.addr)
        need_resolve = []
        for a in res.order:
            cs = self.by_addr.get(a)
            if cs is None:
                continue
            rec["order"].append(cs.label)
            if cs.dropped or not cs.pending:
                continue
            m = self.model.get(cs.addr)
            if m is None:
                # removed earlier in this same round (write-side discovery): frame is not consumed
                cs.pending.clear()
                cs.dropped = True
                continue
            desc = cs.pending.popleft()
            cs.consumed += 1
            out = self.apply(cs, m, desc, rec)
            rec["frames"].append([cs.label, desc, out])
            if desc["kind"] in ("hello_v2", "hello_v1") and out == "resolve":
                need_resolve.append((cs, desc))
        if need_resolve:
            self.resolve_hellos(need_resolve, rec)
        return rec

    def drain(self, opt=None):
        n = 0
        while self.any_pending() and n < self.max_drain and not self.crashed and not self.hung:
            self.round(opt)
            n += 1
        if self.any_pending() and not (self.crashed or self.hung):
            self.problems.append("drain: pending frames left after max rounds")

    # ------------------------------------------------------------------ model application
    def apply(self, cs, m, d, rec):
        k = d["kind"]
        M = self.model
        if k in ("hello_v2", "hello_v1"):
            if m.connected:
                return "ignored"
            unique = not d.get("am", 0)
            name = d.get("name", "") if k == "hello_v2" else ""
            name_s = name.split("\0")[0] if isinstance(name, str) else ""
            dec = M.connect_decision(m, d["mod_id"], unique, name_s)
            if rec.get("uncertain"):
                dec = "either"
            d["decision"] = dec
            d["same_id"] = [[self.by_addr[x.key].label, x.unique, x.fin] for x in M.mods.values()
                            if x is not m and d["mod_id"] != 0 and x.mod_id == d["mod_id"]]
            d["live_ids_before"] = sorted(M.live_ids(exclude=m))
            # provisional application in service order; corrected from the observed outcome after the round
            if dec == "refuse":
                M.remove(cs.addr)
            else:
                M.do_connect(m, d["mod_id"] if d["mod_id"] != 0 else -1000 - m.uid, unique, name_s, bool(d.get("logger")),
                             bool(d.get("daemon")), d.get("pid", 0))
                if dec == "either":
                    rec["uncertain"] = True
            return "resolve"
        if k in ("sub", "resume", "unsub", "pause") and not m.connected:
            cs.pre_ctl += 1
        if k in ("sub", "resume"):
            self.ctl_log.append((rec["n"], cs.label, k, d["t"]))
            M.subscribe(m, d["t"])
            return "ack"
        if k in ("unsub", "pause"):
            self.ctl_log.append((rec["n"], cs.label, k, d["t"]))
            M.unsubscribe(m, d["t"])
            return "ack"
        if k == "pub":
            must, may = M.recipients(d["t"], d["dm"], d["dh"])
            if cs.closed_by_us is not None:
                # the publisher closed its socket with this frame still queued: the manager may discover the closed
                # connection on the write side (an ACK or logger copy to it) and drop it before reading the frame
                must, may = [], must + may
            p = self.pubs[d["id"]]
            p["must"] = [self.by_addr[a].label for a in must]
            p["may"] = [self.by_addr[a].label for a in may]
            p["round"] = rec["n"]
            p["state"] = hash(M.state_sig()) & 0xFFFFFFFF
            return {"must": p["must"], "may": p["may"]}
        if k == "disc":
            M.remove(cs.addr)
            cs.dropped = True
            cs.pending.clear()
            return "removed"
        if k == "eof":
            M.remove(cs.addr)
            cs.dropped = True
            cs.pending.clear()
            return "removed"
        if k == "name":
            m.name = bytes.fromhex(d["name"]).split(b"\0")[0].decode("latin1")
            return "info"
        if k == "ready":
            m.pid = d["pid"]
            return "info"
        if k == "raw":
            return "raw"
        return "?"

    def resolve_hellos(self, lst, rec):
        """The decision was taken (and provisionally applied) at service time; here the observed outcome (ACK
        vs closed) is read and the model is corrected to follow what the manager actually did."""
        self.rig.settle()
        for cs, d in lst:
            unique = not d.get("am", 0)
            name = d.get("name", "") if d["kind"] == "hello_v2" else ""
            name_s = name.split("\0")[0] if isinstance(name, str) else ""
            decision = d["decision"]
            end = time.time() + 3.0
            outcome, frames = None, []
            while True:
                if cs.closed_by_us is not None:
                    outcome = "self_closed"  # we closed it ourselves before the answer: unobservable
                    break
                try:
                    frames, _ = cs.wc.frames()
                except W.ParseError:
                    frames = []
                # the answer to the handshake is the first ACKNOWLEDGE that is not one of the answers (addressed to
                # module 0) to control frames served before it; data delivered to an early subscriber is not looked at
                skip, f0 = cs.pre_ctl, None
                for f in frames:
                    if f.msg_type == W.MT_ACK:
                        if skip and f.dest_mod == 0:
                            skip -= 1
                            continue
                        f0 = f
                        break
                    if not cs.pre_ctl:
                        f0 = f
                        break
                if f0 is not None:
                    outcome = "ack" if f0.msg_type == W.MT_ACK else "other"
                    break
                if cs.wc.eof:
                    outcome = "closed"
                    break
                if time.time() > end or self.rig.dead:
                    outcome = "silent"
                    break
                time.sleep(0.002)
                self.rig.drainer.sync(0.5)
            cs.hello = outcome
            d["outcome"] = outcome
            m = self.model.get(cs.addr)
            if outcome == "ack":
                got = f0.dest_mod
                d["ack_dest_mod"] = got
                mid = got if d["mod_id"] == 0 else d["mod_id"]
                cs.mod_id = mid
                cs.wc.mod_id = mid
                if m is None:   # model refused, manager accepted: follow the manager
                    m = self.model.accept(cs.addr)
                    m.fin = cs.closed_by_us is not None
                self.model.do_connect(m, mid, unique, name_s, bool(d.get("logger")), bool(d.get("daemon")),
                                      d.get("pid", 0))
            elif outcome == "closed":
                self.model.remove(cs.addr)
                cs.dropped = True
                cs.pending.clear()
            elif outcome == "self_closed":
                if m is None:
                    cs.dropped = True
                    cs.pending.clear()
            else:
                self.problems.append(f"handshake of {cs.label} in round {rec['n']}: outcome {outcome}")
            for fr in rec["frames"]:
                if fr[0] == cs.label and fr[1] is d:
                    fr[2] = outcome

    # ------------------------------------------------------------------ running a step list
    def run(self, steps):
        for st in steps:
            if self.crashed or self.hung:
                break
            if st[0] == "round":
                self.round(st[1] if len(st) > 1 else None)
            elif st[0] == "drain":
                self.drain(st[1] if len(st) > 1 else None)
            else:
                self.issue(st)
        if not (self.crashed or self.hung):
            self.drain()
        if not self.rig.dead:
            self.rig.settle()

    # ------------------------------------------------------------------ observations
    def received(self):
        """label -> dict(frames=[Frame], leftover=bytes, eof=str|None, parse_error=str|None)"""
        out = {}
        self.rig.drainer.sync(2.0)
        for L, cs in self.cl.items():
            try:
                frames, left = cs.wc.frames()
                err = None
            except W.ParseError as e:
                frames, left, err = [], b"", str(e)
            out[L] = {"frames": frames, "leftover": left, "eof": cs.wc.eof, "parse_error": err}
        return out


def stream_checks(sc: Scenario, rx, allow_alien=False):
    """The always-on C05 stream monitor: whole frames, gap-free msg_count from 1, no alien frames.
    Returns list of (mech, detail)."""
    bad = []
    for L, r in rx.items():
        cs = sc.cl[L]
        if r["parse_error"]:
            bad.append(("stream_unparsable", f"{L}: {r['parse_error']}"))
            continue
        manager_dropped = r["eof"] is not None and cs.closed_by_us is None
        if r["leftover"] and not manager_dropped and cs.closed_by_us is None:
            bad.append(("stream_partial_frame", f"{L}: {len(r['leftover'])} trailing bytes that are not a whole frame"))
        for i, f in enumerate(r["frames"]):
            if f.msg_count != i + 1:
                bad.append(("msg_count_gap", f"{L}: frame #{i + 1} carries msg_count {f.msg_count} "
                                             f"(type {f.msg_type})"))
                break
        if not allow_alien:
            for f in r["frames"]:
                if f.pid in sc.pubs:
                    continue
                if f.msg_type in W.MANAGER_TYPES and f.src_mod == 0:
                    continue
                bad.append(("alien_frame", f"{L}: frame that is neither a publication nor manager-originated: {f.brief()}"))
                break
    return bad
