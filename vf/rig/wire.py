"""Raw wire-format client, written against the documented byte layout with `struct` only.

Deliberately shares no code with pyrtma (the oracle must not inherit the subject's bugs).
Header (plain, 48 bytes, little endian):
  msg_type i32 | msg_count i32 | send_time f64 | recv_time f64 | src_host i16 | src_mod i16 |
  dest_host i16 | dest_mod i16 | num_data_bytes i32 | remaining_bytes i32 | is_dynamic i32 | reserved u32
Timecode header: + utc_seconds u32 | utc_fraction u32 (56 bytes).
"""
from __future__ import annotations

import errno
import selectors
import socket
import struct
import threading
import time
from dataclasses import dataclass, field

HDR = struct.Struct("<iiddhhhhiiiI")
HDR_TC = struct.Struct("<iiddhhhhiiiIII")
assert HDR.size == 48 and HDR_TC.size == 56

# core message type ids (from the documented core definitions; trusted base)
MT_EXIT, MT_KILL, MT_ACK = 0, 1, 2
MT_CONNECT_V2, MT_FAIL_SUBSCRIBE, MT_FAILED_MESSAGE = 4, 6, 8
MT_CONNECT, MT_DISCONNECT, MT_SUBSCRIBE, MT_UNSUBSCRIBE = 13, 14, 15, 16
MT_MODULE_READY, MT_MESSAGE_TRAFFIC, MT_ACTIVE_CLIENTS = 26, 30, 31
MT_CLIENT_INFO, MT_CLIENT_CLOSED, MT_CLIENT_SET_NAME = 32, 33, 34
MT_RTMA_LOG = 40
MT_LOGS = (40, 41, 42, 43, 44, 45)
MT_TIMING = 80
MT_PAUSE, MT_RESUME = 85, 86
ALL_TYPES = 0x7FFFFFFF
CONTROL_TYPES = (MT_CONNECT, MT_CONNECT_V2, MT_DISCONNECT, MT_SUBSCRIBE, MT_UNSUBSCRIBE, MT_PAUSE,
                 MT_RESUME, MT_CLIENT_SET_NAME, MT_MODULE_READY)
MANAGER_TYPES = (MT_ACK, MT_FAILED_MESSAGE, MT_MESSAGE_TRAFFIC, MT_ACTIVE_CLIENTS, MT_CLIENT_INFO,
                 MT_CLIENT_CLOSED, MT_TIMING) + MT_LOGS

S_CONNECT = struct.Struct("<hh")
S_CONNECT_V2 = struct.Struct("<hhhhi32s")
S_SUB = struct.Struct("<i")
S_READY = struct.Struct("<i")
S_NAME = struct.Struct("<32s")
S_FAILED = struct.Struct("<h3hd")  # + 48-byte header
S_CLIENT = struct.Struct("<32siihhhH32s")
S_TRAFFIC = struct.Struct("<IIdd64i64H")
S_ACTIVE = struct.Struct("<dhhi256h256i")
TIMING_SIZE = 20000 + 800 + 8
assert S_CONNECT_V2.size == 44 and S_CLIENT.size == 80 and S_TRAFFIC.size == 408 and S_ACTIVE.size == 1552


@dataclass
class Frame:
    msg_type: int
    msg_count: int
    send_time: float
    recv_time: float
    src_host: int
    src_mod: int
    dest_host: int
    dest_mod: int
    nbytes: int
    remaining: int
    is_dynamic: int
    reserved: int
    payload: bytes = b""
    tc: tuple = ()
    raw_header: bytes = b""

    @property
    def pid(self):
        """integer value of send_time when it is a finite whole number (publication id), else None"""
        st = self.send_time
        if st != st or st in (float("inf"), float("-inf")) or st != int(st):
            return None
        return int(st)

    def key(self):
        """identity fields the manager must not change (everything but msg_count)"""
        return (self.msg_type, self.send_time, self.recv_time, self.src_host, self.src_mod, self.dest_host,
                self.dest_mod, self.nbytes, self.remaining, self.is_dynamic, self.reserved, self.tc, self.payload)

    def brief(self):
        return {"t": self.msg_type, "n": self.msg_count, "st": self.send_time, "src": self.src_mod,
                "dst": self.dest_mod, "dh": self.dest_host, "len": self.nbytes}


def pack_header(msg_type, msg_count=0, send_time=0.0, recv_time=0.0, src_host=0, src_mod=0, dest_host=0,
                dest_mod=0, nbytes=0, remaining=0, is_dynamic=0, reserved=0, timecode=False, tc=(0, 0)):
    if timecode:
        return HDR_TC.pack(msg_type, msg_count, send_time, recv_time, src_host, src_mod, dest_host, dest_mod,
                           nbytes, remaining, is_dynamic, reserved, tc[0], tc[1])
    return HDR.pack(msg_type, msg_count, send_time, recv_time, src_host, src_mod, dest_host, dest_mod,
                    nbytes, remaining, is_dynamic, reserved)


def frame_bytes(msg_type, payload=b"", timecode=False, **kw):
    kw.setdefault("nbytes", len(payload))
    return pack_header(msg_type, timecode=timecode, **kw) + payload


class ParseError(Exception):
    pass


def parse_frames(buf: bytes, timecode=False, max_payload=1 << 20):
    """Strict parser: returns (frames, leftover_bytes). Raises ParseError on an implausible header."""
    H = HDR_TC if timecode else HDR
    frames, off, n = [], 0, len(buf)
    while n - off >= H.size:
        f = H.unpack_from(buf, off)
        nbytes = f[8]
        if nbytes < 0 or nbytes > max_payload:
            raise ParseError(f"implausible num_data_bytes {nbytes} at stream offset {off}")
        if n - off - H.size < nbytes:
            break
        fr = Frame(*f[:12], payload=bytes(buf[off + H.size: off + H.size + nbytes]), tc=tuple(f[12:]),
                   raw_header=bytes(buf[off:off + H.size]))
        frames.append(fr)
        off += H.size + nbytes
    return frames, bytes(buf[off:])


def unpack_client(payload: bytes):
    addr, uid, pid, mod_id, is_logger, is_unique, port, name = S_CLIENT.unpack(payload)
    return {"addr": addr.split(b"\0")[0].decode("latin1"), "uid": uid, "pid": pid, "mod_id": mod_id,
            "is_logger": is_logger, "is_unique": is_unique, "port": port,
            "name": name.split(b"\0")[0].decode("latin1")}


def unpack_failed(payload: bytes):
    dest_mod, r0, r1, r2, tof = S_FAILED.unpack_from(payload, 0)
    h = HDR.unpack_from(payload, S_FAILED.size)
    return {"dest_mod_id": dest_mod, "time_of_failure": tof, "h_type": h[0], "h_count": h[1], "h_send_time": h[2],
            "h_src_host": h[4], "h_src_mod": h[5], "h_dest_host": h[6], "h_dest_mod": h[7], "h_nbytes": h[8]}


class Drainer:
    """One selector thread that continuously drains every registered harness socket into its byte log."""

    def __init__(self):
        self.sel = selectors.DefaultSelector()
        self.lock = threading.Lock()
        self.cv = threading.Condition(self.lock)
        self.clients = {}
        self.stop = False
        self.sync_req = 0
        self.sync_done = 0
        self._wake_r, self._wake_w = socket.socketpair()
        self._wake_r.setblocking(False)
        self.sel.register(self._wake_r, selectors.EVENT_READ, None)
        self.th = threading.Thread(target=self._run, daemon=True, name="vf-drainer")
        self.th.start()

    def add(self, wc):
        with self.lock:
            self.sel.register(wc.sock, selectors.EVENT_READ, wc)
        self._wake()

    def remove(self, wc):
        with self.lock:
            try:
                self.sel.unregister(wc.sock)
            except Exception:
                pass

    def _wake(self):
        try:
            self._wake_w.send(b"x")
        except OSError:
            pass

    def _run(self):
        busy = False
        while not self.stop:
            with self.lock:
                req = self.sync_req
            try:
                evs = self.sel.select(0 if (busy or req > self.sync_done) else 0.05)
            except (OSError, ValueError):
                evs = []
            ndata = 0
            with self.cv:
                for key, _ in evs:
                    wc = key.data
                    if wc is None:
                        try:
                            self._wake_r.recv(4096)
                        except OSError:
                            pass
                        continue
                    ndata += 1
                    try:
                        data = wc.sock.recv(1 << 20)
                    except (BlockingIOError, InterruptedError):
                        continue
                    except OSError as e:
                        wc.eof = "rst" if e.errno in (errno.ECONNRESET, errno.EPIPE) else f"err{e.errno}"
                        data = None
                    if data is None or data == b"":
                        if data == b"" and wc.eof is None:
                            wc.eof = "fin"
                        try:
                            self.sel.unregister(wc.sock)
                        except Exception:
                            pass
                    else:
                        wc.buf += data
                busy = ndata > 0
                if ndata == 0 and req > self.sync_done:
                    # the request was read before a select() that found nothing readable
                    self.sync_done = req
                self.cv.notify_all()

    def sync(self, timeout=5.0):
        """Return True once the drainer has finished a pass, begun after this call, with nothing readable."""
        end = time.time() + timeout
        with self.cv:
            self.sync_req += 1
            my = self.sync_req
            self._wake()
            while self.sync_done < my:
                rem = end - time.time()
                if rem <= 0:
                    return False
                self.cv.wait(min(rem, 0.05))
        return True

    def close(self):
        self.stop = True
        self._wake()
        self.th.join(1)
        try:
            self.sel.close()
            self._wake_r.close()
            self._wake_w.close()
        except Exception:
            pass


class WireClient:
    """A raw TCP client of the manager. All sends are whole `sendall`s; reading is done by the Drainer."""

    def __init__(self, drainer: Drainer, addr, label, timecode=False, avoid_ports=None):
        self.label = label
        self.timecode = timecode
        for _ in range(50):
            self.sock = socket.socket(socket.AF_INET, socket.SOCK_STREAM)
            self.sock.setsockopt(socket.IPPROTO_TCP, socket.TCP_NODELAY, 1)
            if avoid_ports is None:
                break
            # choose the local port before connecting, so that a port already used by this rig can be declined
            # without the manager ever seeing a connection
            try:
                self.sock.bind((addr[0], 0))
            except OSError:
                break
            if self.sock.getsockname()[1] not in avoid_ports:
                break
            self.sock.close()
        self.sock.connect(addr)
        self.local = self.sock.getsockname()
        self.buf = bytearray()
        self.eof = None
        self.closed = False
        self.sent = 0
        self.drainer = drainer
        self.mod_id = None  # filled by the harness from the ACK
        drainer.add(self)

    def send_raw(self, data: bytes):
        self.sock.sendall(data)

    def send_frame(self, msg_type, payload=b"", **kw):
        kw.setdefault("msg_count", self.sent)
        self.sock.sendall(frame_bytes(msg_type, payload, timecode=self.timecode, **kw))
        self.sent += 1

    def frames(self):
        with self.drainer.lock:
            data = bytes(self.buf)
        return parse_frames(data, self.timecode)

    def close(self, rst=False):
        if self.closed:
            return
        self.closed = True
        self.drainer.remove(self)
        try:
            if rst:
                self.sock.setsockopt(socket.SOL_SOCKET, socket.SO_LINGER, struct.pack("ii", 1, 0))
            self.sock.close()
        except OSError:
            pass

    def shutdown_wr(self):
        try:
            self.sock.shutdown(socket.SHUT_WR)
        except OSError:
            pass


def p_connect(logger=0, daemon=0):
    return S_CONNECT.pack(logger, daemon)


def p_connect_v2(logger=0, daemon=0, allow_multiple=0, mod_id=0, pid=0, name=b""):
    return S_CONNECT_V2.pack(logger, daemon, allow_multiple, mod_id, pid, name)


def p_sub(t):
    return S_SUB.pack(t)
