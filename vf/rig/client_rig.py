"""ClientRig: real pyrtma.Client objects against a free-running ManagerRig, observed at the socket boundary.

The harness reads the raw bytes of client.sock itself (never Client.read_message, whose filter uses the very
state under test) and uses acknowledgements as fences.
"""
from __future__ import annotations

import select
import socket
import time
import warnings

from . import wire as W
from .manager_rig import ManagerRig


class RawReader:
    def __init__(self, sock, timecode=False):
        self.sock = sock
        self.timecode = timecode
        self.buf = bytearray()
        self.eof = None

    def pump(self, wait=0.0):
        end = time.time() + wait
        while True:
            try:
                r, _, _ = select.select([self.sock], [], [], max(0.0, min(0.01, end - time.time())))
            except (OSError, ValueError):
                self.eof = self.eof or "closed"
                return
            if r:
                try:
                    data = self.sock.recv(1 << 20, socket.MSG_DONTWAIT)
                except (BlockingIOError, InterruptedError):
                    data = None
                except OSError:
                    self.eof = "rst"
                    return
                if data == b"":
                    self.eof = "fin"
                    return
                if data:
                    self.buf += data
                    continue
            if time.time() >= end:
                return

    def frames(self):
        return W.parse_frames(bytes(self.buf), self.timecode)[0]

    def wait_for(self, pred, timeout=5.0):
        end = time.time() + timeout
        while True:
            self.pump(0.0)
            fs = self.frames()
            if pred(fs):
                return True
            if time.time() > end or self.eof:
                return pred(self.frames())
            self.pump(0.005)


class ApiSession:
    """One real Client plus a raw publisher P on a free-running rig."""

    def __init__(self, rig: ManagerRig, module_id=0, name="", logger=False):
        from pyrtma.client import Client
        warnings.simplefilter("ignore")
        self.rig = rig
        self.logger = logger
        self.c = Client(module_id=module_id, timecode=rig.timecode, name=name)
        self.c.connect(f"127.0.0.1:{rig.addr[1]}", logger_status=logger)
        self.rd = RawReader(self.c.sock, rig.timecode)
        self.sent0 = self.c.msg_count      # frames the client has sent so far
        self.acks_seen = 0
        self.ctl_expected = 0
        self.P = rig.client("P")
        self.P.send_frame(W.MT_CONNECT_V2, W.p_connect_v2(0, 0, 0, 77, 1, b"prober"), src_mod=77)
        self.P.send_frame(W.MT_CONNECT, W.p_connect(0, 0), src_mod=77)
        self.p_acks = 0
        self._wait_p_acks(1)
        self.tag = 0
        self.duplicates = []

    def _wait_p_acks(self, n, timeout=5.0):
        self.p_acks += n
        end = time.time() + timeout
        while time.time() < end:
            fs, _ = self.P.frames()
            if sum(1 for f in fs if f.msg_type == W.MT_ACK) >= self.p_acks:
                return True
            time.sleep(0.001)
        return False

    def sync_client_controls(self, timeout=5.0):
        """wait until every control frame the client has sent since the last call was acknowledged"""
        sent = self.c.msg_count - self.sent0
        self.sent0 = self.c.msg_count
        self.ctl_expected += sent
        want = self.ctl_expected
        # a logger also receives copies of acknowledgements: those of other modules are told apart by their address;
        # of its own it gets two per request (the answer and the logger copy), and the copy of its handshake's answer
        # is still unread when connect() returns
        me = self.c.module_id
        if self.logger:
            want = 1 + 2 * want
        return self.rd.wait_for(lambda fs: sum(1 for f in fs if f.msg_type == W.MT_ACK and f.dest_mod == me) >= want, timeout)

    def probe(self, types, timeout=5.0):
        """publish one tagged probe per type; return the set of types that arrived at the client's socket"""
        tags = {}
        for t in types:
            self.tag += 1
            st = 3_000_000_000.0 + self.tag
            tags[st] = t
            self.P.send_frame(t, b"", send_time=st, src_mod=77)
        # fence: P's own control frame is processed after all its probes (per-connection FIFO)
        self.P.send_frame(W.MT_SUBSCRIBE, W.p_sub(4999), src_mod=77)
        if not self._wait_p_acks(1, timeout):
            return None
        self.rig.outq_empty(timeout)
        self.rd.pump(0.0)
        got = set()
        self.duplicates = []
        seen = set()
        for f in self.rd.frames():
            if f.send_time in tags and f.msg_type == tags[f.send_time]:
                if f.send_time in seen:
                    self.duplicates.append(tags[f.send_time])
                seen.add(f.send_time)
                got.add(tags[f.send_time])
        return got

    def reconnect(self, lost):
        """clean: disconnect() then connect(); lost: the connection dies under the client (it learns through
        ConnectionLost on the next read), then connect() on the same object"""
        import socket as _s
        from pyrtma.exceptions import ConnectionLost, NotConnectedError
        if lost:
            try:
                self.c._sock.shutdown(_s.SHUT_RDWR)
            except OSError:
                pass
            for _ in range(50):
                try:
                    self.c.read_message(timeout=0.05)
                except (ConnectionLost, NotConnectedError):
                    break
                except Exception:
                    pass
        else:
            self.c.disconnect()
        self.c.connect(f"127.0.0.1:{self.rig.addr[1]}", logger_status=self.logger)
        self.rd = RawReader(self.c.sock, self.rig.timecode)
        self.sent0 = self.c.msg_count
        self.ctl_expected = 0

    def close(self):
        try:
            self.c._sock.close()
        except Exception:
            pass
        self.c._connected = False
        try:
            lg = self.c.logger.logger
            for h in list(lg.handlers):
                lg.removeHandler(h)
        except Exception:
            pass
        self.P.close()
