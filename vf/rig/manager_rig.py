"""ManagerRig: the real MessageManager.run() in a thread, on real loopback TCP, steered from outside the
repository by replacing the module-level names `select`, `random`, `time` inside `pyrtma.manager`.

stepped mode : the run loop blocks at its round-start select until the harness grants one round with a
               prescribed ready set, service order, not-writable set and clock advance.
free mode    : shims pass through and only record.

Faithfulness of the shims (trusted base): a ready set is only ever a subset of what the real select
reports; a writable socket may be reported not-writable, never the reverse; shuffle returns a permutation;
the virtual clock is monotone.
"""
from __future__ import annotations

import fcntl
import logging
import os
import random as _real_random
import select as _real_select
import socket
import struct
import termios
import threading
import time as _real_time
import traceback
from collections import Counter

import pyrtma.manager as pm

from .wire import Drainer, WireClient

_ACTIVE = None  # the rig whose shims are installed in this process

# libc's getprotobyname() is not re-entrant; manager thread and client threads share this process only in the
# harness (in production they are separate processes), so serialise and cache it here to avoid a harness artefact
# (observed: setsockopt(<garbage protocol>, TCP_NODELAY) -> ENOPROTOOPT in ~1 of 500 in-process connects).
_gpn_real = socket.getprotobyname
_gpn_lock = threading.Lock()
_gpn_cache = {}


def _getprotobyname(name):
    with _gpn_lock:
        if name not in _gpn_cache:
            _gpn_cache[name] = _gpn_real(name)
        return _gpn_cache[name]


socket.getprotobyname = _getprotobyname


class _SelectShim:
    error = _real_select.error

    def __getattr__(self, name):
        return getattr(_real_select, name)

    def select(self, r, w, x, timeout=None):
        rig = _ACTIVE
        r, w = list(r), list(w)
        if rig is None or threading.current_thread() is not rig.thread:
            return _real_select.select(r, w, x, timeout)
        if r and not w:
            return rig._round_start(r, timeout)
        if w and not r:
            if timeout is None:
                rig.counters["logger_blocking_wait"] += 1
                rr, ww, xx = _real_select.select(r, w, x, timeout)
                if len(w) > 1 and len(ww) > 1:
                    # a wait on several sockets returns as soon as ONE of them is ready: report one of the ready ones
                    # (the unchanged manager waits for one socket at a time, so this branch is never taken there)
                    rig.counters["logger_batched_wait"] += 1
                    ww = [ww[rig.counters["logger_batched_wait"] % len(ww)]]
                return rr, ww, xx
            return rig._writable(w, timeout)
        return _real_select.select(r, w, x, timeout)


class _RandomShim:
    def __getattr__(self, name):
        return getattr(_real_random, name)

    def shuffle(self, lst):
        rig = _ACTIVE
        if rig is None or threading.current_thread() is not rig.thread:
            return _real_random.shuffle(lst)
        return rig._shuffle(lst)


class _TimeShim:
    def __getattr__(self, name):
        return getattr(_real_time, name)

    def perf_counter(self):
        rig = _ACTIVE
        if rig is None or not rig.virtual_clock:
            return _real_time.perf_counter()
        rig.counters["clock_reads"] += 1
        return rig.clock


class _SocketShim:
    """`socket` as seen by pyrtma.manager: identical, except that sockets it creates get SO_REUSEADDR before bind.
    Thousands of short-lived managers per minute otherwise leave their (ephemeral) listening ports blocked by TIME_WAIT
    remnants for 60 s and bind(port 0) starts failing with EADDRINUSE - a property of the test host, not of pyrtma."""

    def __getattr__(self, name):
        return getattr(socket, name)

    def socket(self, *a, **k):
        s = socket.socket(*a, **k)
        try:
            s.setsockopt(socket.SOL_SOCKET, socket.SO_REUSEADDR, 1)
        except OSError:
            pass
        return s


_SHIMS = (_SelectShim(), _RandomShim(), _TimeShim())
_SOCKET_SHIM = _SocketShim()
_WRAPPED = False


def _install():
    global _WRAPPED
    pm.select, pm.random, pm.time = _SHIMS
    pm.socket = _SOCKET_SHIM
    if _WRAPPED:
        return
    _WRAPPED = True
    MM = pm.MessageManager
    for name in ("process_message", "forward_message", "remove_module", "send_failed_message", "read_message",
                 "send_timing_message", "send_traffic", "send_active_clients", "send_ack"):
        orig = getattr(MM, name, None)
        if orig is None:
            continue

        def mk(orig, name):
            def wrapper(self, *a, **k):
                rig = _ACTIVE
                if rig is not None and rig.mgr is self:
                    rig.counters["call_" + name] += 1
                return orig(self, *a, **k)

            wrapper.__name__ = name
            wrapper.__wrapped__ = orig
            return wrapper

        setattr(MM, name, mk(orig, name))


class Plan:
    __slots__ = ("ready", "accept", "order", "not_writable", "advance", "perm_seed")

    def __init__(self, ready=(), accept=False, order=None, not_writable=(), advance=0.0, perm_seed=None):
        self.ready = list(ready)
        self.accept = accept
        self.order = list(order) if order is not None else None
        self.not_writable = set(not_writable)
        self.advance = advance
        self.perm_seed = perm_seed


class RoundResult:
    def __init__(self):
        self.order = []       # client addresses in the order the manager was told to service them
        self.skipped = []     # planned-ready addresses that had no live manager-side socket
        self.accepted = False
        self.ready_timeout = False
        self.nw_applied = []
        self.wlist = None     # addresses reported writable in this round (None: no snapshot taken)


class ManagerRig:
    def __init__(self, stepped=True, timecode=False, loud=False, send_msg_timing=True, virtual_clock=True,
                 clock0=1000.0):
        global _ACTIVE
        if _ACTIVE is not None:
            # a previous case was abandoned (watchdog / harness exception) before its rig was closed
            stale, _ACTIVE = _ACTIVE, None
            try:
                stale.close()
            except Exception:
                pass
            _ACTIVE = None
        self.stepped = stepped
        self.timecode = timecode
        self.virtual_clock = virtual_clock
        self.clock = clock0
        self.counters = Counter()
        self.cv = threading.Condition()
        self.plan = None
        self.idle = False
        self.rounds = 0
        self.dead = False
        self.crash = None
        self.stopping = False
        self.cur = None
        self.result = None
        self.live = []         # manager-side sockets seen at the last round start
        self.peer = {}         # manager-side socket -> client (addr, port)
        self.thread = None
        self.orders_seen = []
        _ACTIVE = self
        _install()
        # loud: the manager publishes its own log messages (True/1: INFO and above, 2: DEBUG and above)
        # 3: DEBUG with the console handler left on (rendering into the null device)
        level = (logging.DEBUG if loud in (2, 3) else logging.INFO) if loud else logging.CRITICAL + 10
        self.mgr = None
        for attempt in range(120):
            try:
                self.mgr = pm.MessageManager("127.0.0.1", 0, timecode=timecode, log_level=level,
                                             send_msg_timing=send_msg_timing)
                break
            except OSError as e:
                # EADDRINUSE from bind(port 0): the ephemeral port range is momentarily exhausted by TIME_WAIT sockets
                # of earlier cases (a property of the test host, not of pyrtma) -> wait and retry
                if e.errno != 98 or attempt == 119:
                    _ACTIVE = None
                    raise
                _real_time.sleep(0.5)
        if loud == 3:
            try:
                from rich.console import Console
                self._null = open(os.devnull, "w")
                self.mgr.logger.console_handler.console = Console(file=self._null, force_terminal=False, width=120)
            except Exception:
                self.mgr.logger.enable_console = False
        elif loud:
            try:
                self.mgr.logger.enable_console = False
            except Exception:
                pass
        self.listener = self.mgr.listen_socket
        self.addr = self.listener.getsockname()
        self.drainer = Drainer()
        self.clients = []
        self.used_ports = set()
        self.thread = threading.Thread(target=self._thread, daemon=True, name="vf-manager")
        self.thread.start()
        if stepped:
            self._wait_idle(10)

    # ------------------------------------------------------------------ manager thread side
    def _thread(self):
        try:
            self.mgr.run()
        except BaseException:
            self.crash = traceback.format_exc()
        finally:
            with self.cv:
                self.dead = True
                self.idle = True
                self.cv.notify_all()

    def _peer_of(self, s):
        p = self.peer.get(s)
        if p is None:
            try:
                p = s.getpeername()
            except OSError:
                try:
                    p = tuple(self.mgr.modules[s].address)
                except Exception:
                    p = None
            if p is not None:
                self.peer[s] = p
        return p

    def _is_listener(self, s):
        return s is self.listener

    def _round_start(self, r, timeout):
        self.live = [s for s in r if not self._is_listener(s)]
        for s in self.live:
            self._peer_of(s)
        if not self.stepped:
            self.counters["rounds"] += 1
            with self.cv:
                self.rounds += 1
                self.cv.notify_all()
            return _real_select.select(r, [], [], timeout)
        with self.cv:
            if self.cur is not None:
                self.result, self.cur = self.cur, None
            self.idle = True
            self.rounds += 1
            self.cv.notify_all()
            while self.plan is None and not self.stopping:
                self.cv.wait(0.5)
            plan, self.plan = self.plan, None
            self.idle = False
        if plan is None:  # stopping
            return [], [], []
        self.counters["rounds"] += 1
        self.clock += plan.advance
        res = RoundResult()
        self.cur = res
        self._plan = plan
        want = []
        by_peer = {self.peer.get(s): s for s in self.live}
        for a in plan.ready:
            s = by_peer.get(tuple(a))
            if s is None:
                res.skipped.append(tuple(a))
            else:
                want.append(s)
        if plan.accept:
            want.append(self.listener)
        ready = []
        if want:
            end = _real_time.time() + 5.0
            while True:
                ready, _, _ = _real_select.select(want, [], [], 0.002)
                if len(ready) == len(want):
                    break
                if _real_time.time() > end:
                    res.ready_timeout = True
                    break
        out = [s for s in r if s in ready]
        res.accepted = self.listener in out
        return out, [], []

    def _shuffle(self, lst):
        plan, res = getattr(self, "_plan", None), self.cur
        if not self.stepped or plan is None or res is None:
            _real_random.shuffle(lst)
            self.orders_seen.append(tuple(self.peer.get(s) for s in lst))
            return
        if plan.order is not None:
            idx = {tuple(a): i for i, a in enumerate(plan.order)}
            lst.sort(key=lambda s: idx.get(self.peer.get(s), 1 << 30))
        elif plan.perm_seed is not None:
            _real_random.Random(plan.perm_seed).shuffle(lst)
        res.order = [self.peer.get(s) for s in lst]
        self.counters["shuffles"] += 1

    def _writable(self, w, timeout):
        _, ww, _ = _real_select.select([], w, [], timeout)
        plan, res = getattr(self, "_plan", None), self.cur
        if self.stepped and plan is not None and res is not None:
            nw = {tuple(a) for a in plan.not_writable}
            kept = [s for s in ww if self.peer.get(s) not in nw]
            res.nw_applied = [self.peer.get(s) for s in ww if self.peer.get(s) in nw]
            res.wlist = [self.peer.get(s) for s in kept if not self._is_listener(s)]
            self.counters["writable_snapshots"] += 1
            return [], kept, []
        return [], ww, []

    # ------------------------------------------------------------------ harness side
    def _wait_idle(self, timeout):
        end = _real_time.time() + timeout
        with self.cv:
            while not self.idle and not self.dead:
                rem = end - _real_time.time()
                if rem <= 0:
                    return False
                self.cv.wait(rem)
        return True

    def alive(self):
        return not self.dead and self.thread.is_alive()

    def step(self, plan: Plan, timeout=20.0):
        """Grant one round. Returns the RoundResult, or None if the manager thread is dead / hung."""
        assert self.stepped
        if not self._wait_idle(timeout) or self.dead:
            return None
        end = _real_time.time() + timeout
        with self.cv:
            start = self.rounds
            self.result = None
            self.plan = plan
            self.idle = False
            self.cv.notify_all()
            while self.rounds == start and not self.dead:
                rem = end - _real_time.time()
                if rem <= 0:
                    self.counters["step_watchdog"] += 1
                    return None
                self.cv.wait(rem)
            if self.dead:
                r = self.cur or self.result
                return r
            return self.result

    def client(self, label=None) -> WireClient:
        # every harness connection of one rig gets a client port of its own: the kernel may hand a just-released
        # ephemeral port to a later connection, and addresses identify connections in the harness's bookkeeping
        wc = WireClient(self.drainer, self.addr, label or f"c{len(self.clients)}", timecode=self.timecode,
                        avoid_ports=self.used_ports)
        self.used_ports.add(wc.local[1])
        self.clients.append(wc)
        return wc

    def outq_empty(self, timeout=5.0):
        """Wait until every live manager-side socket has an empty send queue (everything it wrote has been
        acknowledged by the peer's TCP, i.e. sits in the client's receive queue or was consumed)."""
        end = _real_time.time() + timeout
        buf = bytearray(4)
        for s in list(self.live) + self._modules_sockets():
            while True:
                try:
                    fd = s.fileno()
                    if fd < 0:
                        break
                    fcntl.ioctl(fd, termios.TIOCOUTQ, buf)
                    if struct.unpack("i", buf)[0] == 0:
                        break
                except OSError:
                    break
                if _real_time.time() > end:
                    return False
                _real_time.sleep(0.0005)
        return True

    def _modules_sockets(self):
        try:
            return [s for s in list(self.mgr.modules.keys()) if s is not self.listener]
        except Exception:
            return []

    def wait_peer_readable(self, addr, timeout=3.0):
        """Harness side, manager idle at the gate: wait until the manager-side socket of client `addr` is
        readable (FIN or RST has reached the manager's kernel). No data is consumed."""
        addr = tuple(addr)
        for s, p in list(self.peer.items()):
            if p == addr and s.fileno() >= 0:
                r, _, _ = _real_select.select([s], [], [], timeout)
                return bool(r)
        return False

    def settle(self, timeout=5.0):
        """Everything the manager has written so far is in the harness byte logs when this returns True."""
        ok = self.outq_empty(timeout)
        return self.drainer.sync(timeout) and ok

    def wait_rounds(self, n, timeout=5.0):
        end = _real_time.time() + timeout
        with self.cv:
            target = self.rounds + n
            while self.rounds < target and not self.dead:
                rem = end - _real_time.time()
                if rem <= 0:
                    return False
                self.cv.wait(rem)
        return True

    def close(self):
        global _ACTIVE
        self.stopping = True
        try:
            self.mgr.close()
        except Exception:
            pass
        with self.cv:
            self.cv.notify_all()
        self.thread.join(2.0)
        for c in self.clients:
            c.close(rst=True)   # reset instead of FIN at teardown: no TIME_WAIT, keeps the ephemeral port range free
        self.drainer.close()
        try:
            for s in list(self.mgr.modules.keys()):
                try:
                    s.close()
                except Exception:
                    pass
        except Exception:
            pass
        try:
            self.listener.close()
        except Exception:
            pass
        # break the logger's reference cycle so managers do not accumulate
        try:
            lg = self.mgr.logger.logger
            for h in list(lg.handlers):
                lg.removeHandler(h)
        except Exception:
            pass
        _ACTIVE = None
