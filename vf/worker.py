"""Worker: runs a shard of cases for one check in a fresh process; one JSON result line per case."""
from __future__ import annotations

import json
import os
import signal
import sys
import time
import traceback


class CaseTimeout(Exception):
    pass


def _alarm(signum, frame):
    raise CaseTimeout()


def run_one(mod, case, tier):
    limit = int(case.get("timeout", getattr(mod, "CASE_TIMEOUT", 60)))
    old = signal.signal(signal.SIGALRM, _alarm)
    signal.alarm(limit)
    t0 = time.time()
    try:
        res = mod.run_case(case, tier)
    except CaseTimeout:
        res = {"inconclusive": f"case watchdog ({limit}s) fired", "violations": []}
    except Exception:
        res = {"inconclusive": "harness exception: " + traceback.format_exc()[-1500:], "violations": []}
    finally:
        signal.alarm(0)
        signal.signal(signal.SIGALRM, old)
    res.setdefault("case", case)
    res["wall"] = round(time.time() - t0, 3)
    return res


def main():
    inp, out = sys.argv[1], sys.argv[2]
    spec = json.load(open(inp))
    from vf.driver import load_check

    mod = load_check(spec["check"])
    if hasattr(mod, "worker_init"):
        mod.worker_init(spec["tier"])
    with open(out, "w") as f:
        for case in spec["cases"]:
            res = run_one(mod, case, spec["tier"])
            # an inconclusive case says nothing about the property (a wall-clock watchdog of the harness fired on a loaded
            # machine, a scripted peer did not get its handshake through ...): it is run again - up to twice, once after a
            # case watchdog - and the first attempt that decides counts. A violation is never retried.
            tries = 0
            while res.get("inconclusive") and not res.get("violations") and tries < (1 if "case watchdog" in str(res["inconclusive"]) else 2):
                tries += 1
                first = str(res["inconclusive"])
                time.sleep(0.2 * tries)
                res = run_one(mod, case, spec["tier"])
                res.setdefault("counters", {})
                res["counters"]["inconclusive_attempts_repeated"] = res["counters"].get("inconclusive_attempts_repeated", 0) + tries
                res["repeated_after"] = first[:300]
            f.write(json.dumps(res, default=str) + "\n")
            f.flush()
    if hasattr(mod, "worker_fini"):
        mod.worker_fini()
    sys.stdout.flush()
    os._exit(0)


if __name__ == "__main__":
    main()
