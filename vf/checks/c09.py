"""C09 — field validation is sound, complete and atomic.

Assignment contracts evaluated around every driven assignment on message classes produced by the real compiler
(every validator kind, every width, lengths 2/3/8/33, nesting depth 3): bytes(top-level message) are
snapshotted before; on normal return the read-back is compared with an independent domain oracle and every
byte outside the assigned field must be unchanged; on an exception every byte must be unchanged; values the
oracle places outside the domain must be refused, also after disable-validation blocks were left.
"""
from __future__ import annotations

import ctypes
import math
import random
from decimal import Decimal
from fractions import Fraction

from vf.driver import sig_of
from vf.models import fielddomain as FD
from vf.rig import field_rig

ID = "C09"
LEVEL = "exploration"
RULE = ("cases = (message class, field path, operation in {assign scalar, assign whole array, assign element, assign slice of "
        "every shape, assign struct, assign struct-array element}, value from the boundary / wrong-type pools, one bad element "
        "at every index of an otherwise valid sequence with and without NaN neighbours, assignment from another message's "
        "array), random assignment histories on one message, and every nesting (depth<=3) of disable-validation blocks left "
        "normally or by exception followed by out-of-domain assignments; non-trivial = an assignment that the oracle "
        "classifies accept or refuse (not don't-care); distinct = distinct (class, path, op, value repr)")
ASSUMPTIONS = ["don't-care: bool for int fields, +-inf and NaN literals, ctypes instances, '' for Char, a string that exactly "
               "fills its array, rejection of an in-domain value (but a kind for which nothing was ever accepted makes the run "
               "inconclusive)",
               "float read-back compared via struct round trip; strings up to the first NUL"]
REQUIRE = {"assignments": 20000, "refusals_required": 5000, "readbacks_compared": 5000, "atomicity_checked_on_raise": 5000,
           "disable_blocks_checked": 50, "checked_while_other_thread_in_disable_block": 10,
           "writes_through_views_bound_inside_disable_block": 100, "disable_objects_reused": 30, "foreign_ctypes_arrays_assigned": 100}
CASE_TIMEOUT = 120
HUGE = 10 ** 400


def prepare(tier, seed, scratch):
    field_rig.build(scratch)


# ------------------------------------------------------------------------------------------------ value pools
def int_values(bits, signed):
    lo, hi = FD.irange(bits, signed)
    return [lo - 1, lo, -1, 0, 1, hi, hi + 1, 1 << 64, -(1 << 64), HUGE, -HUGE, True, False, 1.0, 1.5, "1", None, 1j, Decimal(1),
            Fraction(1, 2), b"\x01", [1], float("nan"), float("inf"), hi - 1, lo + 1, (1 << 63), (1 << 32), -(1 << 31) - 1]


def float_values(width):
    return [0.0, -0.0, 1.5, -2.25, 3.4028234663852886e38, -3.4028234663852886e38, 3.4028235677973366e38, 3.5e38, 1e39, -1e39,
            1.7976931348623157e308, -1.7976931348623157e308, 5e-324, 1e-46, 1e-38, float("nan"), float("inf"), float("-inf"),
            2 ** 127, 2 ** 128, -(2 ** 128), 2 ** 1023, 2 ** 1024, HUGE, -HUGE, 7, True, "1.0", None, 1j, Decimal("1.5"), [1.0], b"1"]


CHAR_VALUES = ["a", "Z", "", "ab", "\xe9", "名", "\x00", "\x7f", "\x01", 5, b"a", None, 1.0, ["a"]]


def string_values(n):
    return ["", "a", "a" * (n - 1), "a" * n, "a" * (n + 1), "a" * (n + 7), "h\xe9", "名", "ab\x00cd"[:max(1, n - 1)], "\x7f\x01"[:n - 1],
            5, b"ab", None, ["a", "b"], 1.5, "q" * max(0, n - 2)]


BYTE_VALUES = [0, 1, 255, 256, -1, 1 << 64, b"\x05", b"\xff", b"", b"ab", bytearray(b"\x07"), "a", 1.0, None, True, [1]]
BAD_INT_ELEMS = lambda bits, signed: [FD.irange(bits, signed)[1] + 1, FD.irange(bits, signed)[0] - 1, 1.5, "1", None, HUGE]
BAD_FLOAT_ELEMS = lambda width: ([1e39, -1e39, 2 ** 128] if width == 32 else [2 ** 1024]) + [HUGE, -HUGE, "x", None, 1j]
BAD_BYTE_ELEMS = [256, -1, 1.5, "a", None]


def slice_keys(n):
    ks = [0, n - 1, -1, -n, n, -n - 1, n + 3, slice(None), slice(0, 2), slice(1, None, 2), slice(None, None, -1), slice(0, 0),
          slice(n, n + 5), slice(-2, None), slice(None, None, 2), slice(n - 1, None, -2), slice(1, n - 1)]
    return ks


def key_repr(k):
    return f"[{k.start}:{k.stop}:{k.step}]" if isinstance(k, slice) else f"[{k}]"


# ------------------------------------------------------------------------------------------------ navigation
def walk(kinds, prefix=()):
    """yields (path, kind) for every assignable leaf / array / struct field reachable from a class kind table"""
    for name, kind in kinds.items():
        p = prefix + (name,)
        yield p, kind
        if kind[0] == "struct":
            yield from walk(kind[2], p)
        elif kind[0] == "structarray":
            for i in (0, kind[2] - 1):
                yield from walk(kind[3], p + (i,))


def resolve(top, path):
    """returns (parent object, attribute name) for a path of names / indices ending in a name"""
    obj = top
    for step in path[:-1]:
        obj = obj[step] if isinstance(step, int) else getattr(obj, step)
    return obj, path[-1]


def field_region(top, path):
    """(offset, size) of the addressed field inside the top-level message, via ctypes addresses (trusted base)"""
    parent, name = resolve(top, path)
    base = ctypes.addressof(top)
    meta = getattr(type(parent), "_" + name)
    return ctypes.addressof(parent) - base + meta.offset, meta.size


class Monitor:
    def __init__(self, res):
        self.res = res
        self.V = res["violations"]
        self.C = res["counters"]
        self.accepted_kinds = set()
        self.seen = set()

    def bump(self, k, n=1):
        self.C[k] = self.C.get(k, 0) + n

    def attempt(self, top, path, kind, do, readback, verdict, canon, desc, region=None, compare=None):
        """run one assignment under the contract"""
        before = bytes(top)
        self.bump("assignments")
        key = (type(top).__name__, path, desc)
        if verdict in ("accept", "refuse"):
            self.res["nontrivial"] = True
        try:
            do()
            raised = None
        except Exception as e:  # any exception is a refusal
            raised = e
        after = bytes(top)
        if raised is not None:
            self.bump("atomicity_checked_on_raise")
            if after != before:
                diff = [i for i in range(len(before)) if before[i] != after[i]]
                self.V.append({"mech": f"not_atomic:{kind[0]}", "detail": f"{type(top).__name__}.{fmt(path)} {desc} raised {type(raised).__name__} "
                                                                           f"but {len(diff)} byte(s) of the message changed (offsets {diff[:8]})"})
            if verdict == "refuse":
                self.bump("refusals_required")
            return False
        # returned normally
        if verdict == "refuse":
            self.bump("refusals_required")
            self.V.append({"mech": f"out_of_domain_accepted:{kind[0]}", "detail": f"{type(top).__name__}.{fmt(path)} {desc} was accepted; "
                                                                                   f"read-back {safe(readback)}"})
            return True
        self.accepted_kinds.add(kind[0])
        if canon is not None:
            self.bump("readbacks_compared")
            try:
                got = readback()
            except Exception as e:
                self.V.append({"mech": f"readback_raises:{kind[0]}", "detail": f"{type(top).__name__}.{fmt(path)} {desc}: reading back raised {e!r}"})
                return True
            ok = compare(got, canon) if compare else FD.feq(got, canon)
            if not ok:
                self.V.append({"mech": f"readback_differs:{kind[0]}", "detail": f"{type(top).__name__}.{fmt(path)} {desc}: read back {got!r}, expected {canon!r}"})
        if region is not None:
            off, size = region
            if before[:off] != after[:off] or before[off + size:] != after[off + size:]:
                self.V.append({"mech": f"bytes_outside_field_changed:{kind[0]}", "detail": f"{type(top).__name__}.{fmt(path)} {desc}: bytes outside "
                                                                                          f"[{off},{off + size}) changed"})
        return True


def fmt(path):
    return ".".join(str(p) for p in path)


def safe(f):
    try:
        return repr(f())[:80]
    except Exception as e:
        return f"<{type(e).__name__}>"


# ------------------------------------------------------------------------------------------------ assignment programs
def scalar_ops(mon, top, path, kind, values):
    parent, name = resolve(top, path)
    region = field_region(top, path)
    for v in values:
        verdict, canon = FD.classify_scalar(kind, v)
        mon.attempt(top, path, kind, lambda: setattr(parent, name, v), lambda: getattr(parent, name), verdict, canon,
                    f"= {v!r:.40}", region)


def array_ops(mon, top, path, kind, rng, other=None):
    parent, name = resolve(top, path)
    region = field_region(top, path)
    n = kind[-1] if kind[0] != "intarray" else kind[3]
    ek = FD.elem_kind(kind)
    read_all = (lambda: list(getattr(parent, name)[:])) if kind[0] != "bytearray" else (lambda: list(bytes(getattr(parent, name)[:])))

    def good(i):
        if ek[0] == "int":
            lo, hi = FD.irange(ek[1], ek[2])
            return rng.choice([lo, hi, 0, 1, rng.randint(lo, hi)])
        if ek[0] == "float":
            return rng.choice([0.0, -0.0, 1.5, -3.25e10, 1e-30, float(i)])
        return rng.randint(0, 255)

    def whole(seq, desc):
        verdict, canon = FD.classify_sequence(kind, seq, n)
        mon.attempt(top, path, kind, lambda: setattr(parent, name, seq), read_all, verdict, canon, desc, region, FD.seq_equal)

    base = [good(i) for i in range(n)]
    whole(list(base), f"= valid list {base!r:.40}")
    whole(tuple(base), "= valid tuple")
    whole(base[:-1], "= list too short")
    whole(base + [good(0)], "= list too long")
    whole([], "= []")
    whole(None, "= None")
    whole("a" * n, "= str")
    whole(5, "= 5")
    if kind[0] != "bytearray":
        # bytes-like objects are sequences of ints 0..255
        whole(bytes([1] * n), "= bytes of ones")
        whole(bytearray([127] * n), "= bytearray of 127s")
        for i in (0, n - 1):
            b = [5] * n
            b[i] = 200
            whole(bytes(b), f"= bytes with 200 at index {i}")
            b[i] = 128
            whole(bytearray(b), f"= bytearray with 128 at index {i}")
        whole(bytes([255] * n), "= bytes of 255s")
        whole(bytes(n + 1), "= bytes too long")
    if kind[0] in ("intarray", "floatarray"):
        # a raw ctypes array of ANOTHER element type holding one value outside the field's domain: the API takes ctypes
        # arrays as sequences, so the element is refused like anywhere else and nothing is written
        import ctypes as _ct
        if ek[0] == "int":
            lo, hi = FD.irange(ek[1], ek[2])
            src_t, bad = ((_ct.c_int64, lo - 1) if ek[2] else (_ct.c_int64, -1)) if ek[1] < 64 or not ek[2] else (_ct.c_uint64, hi + 1)
            if ek[1] < 64 and not ek[2]:
                src_t, bad = rng.choice([(_ct.c_int64, -1), (_ct.c_uint64, hi + 1)])
            fill_ok = 1
        else:
            src_t, bad, fill_ok = _ct.c_double, 1e300, 1.5
        if not (ek[0] == "float" and ek[1] == 64):
            for i in sorted({0, n - 1}):
                vals = [fill_ok] * n
                vals[i] = bad
                arr = (src_t * n)(*vals)
                mon.bump("foreign_ctypes_arrays_assigned")
                mon.attempt(top, path, kind, lambda arr=arr: setattr(parent, name, arr), read_all, "refuse", None,
                            f"= {src_t.__name__}[{n}] with {bad!r} at index {i}", region, FD.seq_equal)
                if n >= 2:
                    sl = (src_t * 1)(bad)
                    mon.attempt(top, path, kind, lambda sl=sl, i=i: getattr(parent, name).__setitem__(slice(i, i + 1), sl), read_all, "refuse", None,
                                f"[{i}:{i + 1}] = {src_t.__name__}[1] holding {bad!r}", region, FD.seq_equal)
    if kind[0] == "bytearray":
        whole(bytes(base), "= bytes")
        whole(bytearray(base), "= bytearray")
        whole(bytes(n - 1), "= bytes too short")
        whole(bytes(n + 1), "= bytes too long")
        whole(b"\xff" * n, "= 0xff bytes")
        whole(bytes(n), "= zero bytes")
    bads = BAD_INT_ELEMS(ek[1], ek[2]) if ek[0] == "int" else BAD_FLOAT_ELEMS(ek[1]) if ek[0] == "float" else BAD_BYTE_ELEMS
    # one bad element at every index of an otherwise valid sequence, with and without NaN neighbours
    for i in range(n):
        for bad in bads:
            seq = [good(j) for j in range(n)]
            seq[i] = bad
            whole(seq, f"= valid list with {bad!r:.20} at index {i}")
            if ek[0] == "float":
                for nan_at in {0, n - 1, (i + 1) % n, (i - 1) % n} - {i}:
                    s2 = list(seq)
                    s2[nan_at] = float("nan")
                    whole(s2, f"= list with {bad!r:.20} at index {i} and NaN at index {nan_at}")
    if ek[0] == "float":
        whole([float("nan")] * n, "= all NaN")
        s = [good(j) for j in range(n)]
        s[0] = float("inf")
        whole(s, "= list with inf literal")
    # assignment from another message's array field
    if other is not None:
        oparent, _ = resolve(other, path)
        src = getattr(oparent, name)
        try:
            expect = list(src[:]) if kind[0] != "bytearray" else list(bytes(src[:]))
        except Exception:
            expect = None
        mon.attempt(top, path, kind, lambda: setattr(parent, name, src), read_all, "accept", expect, "= array field of another message",
                    region, FD.seq_equal)
    # element and slice assignment
    arr = lambda: getattr(parent, name)
    for k in slice_keys(n):
        if isinstance(k, slice):
            m = len(range(*k.indices(n)))
            for seq, desc in (([good(j) for j in range(m)], "valid"), ([good(j) for j in range(m + 1)], "too long"),
                              ([good(j) for j in range(max(0, m - 1))], "too short")):
                verdict, canon = FD.classify_sequence(kind, seq, m)
                if len(seq) != m:
                    verdict = "refuse"
                if m == 0 and len(seq) == 0:
                    verdict = "either"
                rb = (lambda k=k: list(arr()[k])) if kind[0] != "bytearray" else (lambda k=k: list(bytes(arr()[k])))
                mon.attempt(top, path, kind, lambda: arr().__setitem__(k, seq), rb, verdict, canon, f"{key_repr(k)} = {desc} list", region, FD.seq_equal)
            if m >= 1 and kind[0] != "bytearray":
                for bv in (bytes([200] * m), bytearray([7] * m)):
                    verdict, canon = FD.classify_sequence(kind, bv, m)
                    rb = (lambda k=k: list(arr()[k]))
                    mon.attempt(top, path, kind, lambda: arr().__setitem__(k, bv), rb, verdict, canon, f"{key_repr(k)} = {type(bv).__name__} {list(bv)[:3]}", region, FD.seq_equal)
            if m >= 1:
                for bad in bads[:3]:
                    seq = [good(j) for j in range(m)]
                    pos = rng.randrange(m)
                    seq[pos] = bad
                    mon.attempt(top, path, kind, lambda: arr().__setitem__(k, seq), None, "refuse", None,
                                f"{key_repr(k)} = list with {bad!r:.20} at {pos}", region)
        else:
            inrange = -n <= k < n
            vals = (int_values(ek[1], ek[2]) if ek[0] == "int" else float_values(ek[1]) if ek[0] == "float" else BYTE_VALUES)
            for v in (vals if k in (0, -1) else vals[:9]):
                verdict, canon = FD.classify_scalar(ek, v)
                if not inrange:
                    verdict, canon = "refuse", None
                elif isinstance(v, (list, tuple, bytes, bytearray)) and not (ek[0] == "byte" and isinstance(v, (bytes, bytearray)) and len(v) == 1):
                    verdict, canon = "refuse", None
                rb = (lambda k=k: arr()[k]) if kind[0] != "bytearray" else (lambda k=k: bytes(arr()[k])[0])
                mon.attempt(top, path, kind, lambda: arr().__setitem__(k, v), rb, verdict, canon, f"{key_repr(k)} = {v!r:.30}", region)


def struct_ops(mon, top, path, kind, mod, rng):
    parent, name = resolve(top, path)
    region = field_region(top, path)
    cls = getattr(mod, kind[1])
    others = [getattr(mod, n) for n in ("FINNER", "FMIDDLE", "FOUTER", "MDF_FSCALARS") if n != kind[1]]
    if kind[0] == "struct":
        good = cls.from_random()
        mon.attempt(top, path, kind, lambda: setattr(parent, name, good), lambda: bytes(getattr(parent, name)), "accept", bytes(good),
                    f"= {kind[1]} instance", region)
        for bad in [o() for o in others] + [None, 5, {}, "x", bytes(ctypes.sizeof(cls)), [good]]:
            mon.attempt(top, path, kind, lambda: setattr(parent, name, bad), None, "refuse", None, f"= {type(bad).__name__} (wrong struct type)", region)
    else:
        n = kind[2]
        goods = [cls.from_random() for _ in range(n)]
        rb = lambda: b"".join(bytes(x) for x in getattr(parent, name)[:])
        mon.attempt(top, path, kind, lambda: setattr(parent, name, goods), rb, "accept", b"".join(bytes(g) for g in goods), "= list of instances", region)
        mon.attempt(top, path, kind, lambda: setattr(parent, name, goods[:-1]), None, "refuse", None, "= list too short", region)
        mon.attempt(top, path, kind, lambda: setattr(parent, name, goods + goods[:1]), None, "refuse", None, "= list too long", region)
        for i in range(n):
            for bad in [others[0](), None, 5]:
                seq = [cls.from_random() for _ in range(n)]
                seq[i] = bad
                mon.attempt(top, path, kind, lambda: setattr(parent, name, seq), None, "refuse", None,
                            f"= list with {type(bad).__name__} at index {i}", region)
            g = cls.from_random()
            mon.attempt(top, path, kind, lambda: getattr(parent, name).__setitem__(i, g), lambda: bytes(getattr(parent, name)[i]), "accept", bytes(g),
                        f"[{i}] = instance", region)
            for bad in [others[0](), None, 5, "x"]:
                mon.attempt(top, path, kind, lambda: getattr(parent, name).__setitem__(i, bad), None, "refuse", None,
                            f"[{i}] = {type(bad).__name__}", region)
        for k in (n, -n - 1):
            g = cls.from_random()
            mon.attempt(top, path, kind, lambda: getattr(parent, name).__setitem__(k, g), None, "refuse", None, f"[{k}] = instance (index out of range)", region)


def run_field(mon, mod, top, path, kind, rng, other):
    k = kind[0]
    if k == "int":
        scalar_ops(mon, top, path, kind, int_values(kind[1], kind[2]))
    elif k == "float":
        scalar_ops(mon, top, path, kind, float_values(kind[1]))
    elif k == "char":
        scalar_ops(mon, top, path, kind, CHAR_VALUES)
    elif k == "byte":
        scalar_ops(mon, top, path, kind, BYTE_VALUES)
    elif k == "string":
        scalar_ops(mon, top, path, kind, string_values(kind[1]))
    elif k in ("intarray", "floatarray", "bytearray"):
        array_ops(mon, top, path, kind, rng, other)
    elif k in ("struct", "structarray"):
        struct_ops(mon, top, path, kind, mod, rng)


# ------------------------------------------------------------------------------------------------ disable blocks
def disable_program(mon, mod, rng, shape):
    """shape: list of (ignore_flag) per nesting level, raise_at: level at which an exception is raised (or None)"""
    from pyrtma.validators import disable_message_validation
    top = mod.MDF_FSCALARS()
    levels, raise_at = shape["levels"], shape["raise_at"]
    held = mod.MDF_FARRAYS3()
    nest = mod.MDF_FNESTED()
    views = {}

    class Boom(Exception):
        pass

    def enter(i):
        if i == len(levels):
            # array views obtained while the blocks are open and kept for use after them
            views.update(a_int16=held.a_int16, a_float=held.a_float, a_bytes=held.a_bytes, inners=nest.inners, u=nest.inner.u)
            # innermost: an out-of-domain assignment is accepted only if some enclosing block really disables
            try:
                top.f_int8 = 1000
            except Exception:
                pass
            if raise_at == i:
                raise Boom()
            return
        with disable_message_validation(ignore=levels[i]):
            enter(i + 1)
            if raise_at == i:
                raise Boom()

    special = shape.get("special")
    try:
        if special == "decorated_recursive":
            # one disable object used as a decorator on a function that calls itself (the blocks nest, one per call)
            @disable_message_validation(ignore=levels[0])
            def rec(n):
                try:
                    top.f_int8 = 1000
                except Exception:
                    pass
                if n:
                    rec(n - 1)
                elif raise_at is not None:
                    raise Boom()
            rec(len(levels))
            views.update(a_int16=held.a_int16)
        elif special == "same_object_nested":
            # the same object entered again while it is active (whether the inner entry is refused or not)
            nv = disable_message_validation(ignore=levels[0])
            try:
                with nv:
                    with nv:
                        if raise_at is not None:
                            raise Boom()
            except Boom:
                raise
            except Exception:
                pass
        elif special == "same_object_sequential":
            nv = disable_message_validation(ignore=levels[0])
            for _ in range(2):
                try:
                    with nv:
                        pass
                except Exception:
                    pass
        else:
            enter(0)
    except Boom:
        pass
    if special:
        mon.bump("disable_objects_reused")
    mon.bump("disable_blocks_checked")
    helper = None
    if shape.get("other_thread"):
        # another thread is inside an explicit disable block (a MessageManager.run() thread keeps one open for its
        # whole life); this thread is not, so validation is in force here
        import threading
        entered, release = threading.Event(), threading.Event()

        def sit():
            with disable_message_validation():
                entered.set()
                release.wait(30)

        helper = threading.Thread(target=sit, daemon=True)
        helper.start()
        entered.wait(10)
        mon.bump("checked_while_other_thread_in_disable_block")
    try:
        _after_blocks(mon, mod, levels, raise_at, "while_other_thread_in_disable_block" if helper else None)
        _views_after_blocks(mon, mod, held, nest, views, levels, raise_at)
    finally:
        if helper:
            release.set()
            helper.join(10)
    # restore for the following cases (the violation, if any, has been recorded)
    try:
        from pyrtma import validators as _v
        _v._VALIDATION_ENABLED.set(True)
    except Exception:
        pass


def _views_after_blocks(mon, mod, held, nest, views, levels, raise_at):
    """writes through array views that were obtained inside the (now left) disable blocks: validation is in force"""
    how = f"after disable block(s) {levels} left {'by exception at level ' + str(raise_at) if raise_at is not None else 'normally'}, through a view obtained inside"
    todo = [(held, ("a_int16",), ["intarray", 16, True, 3], "a_int16", 1, 70000), (held, ("a_int16",), ["intarray", 16, True, 3], "a_int16", slice(0, 2), [1, -40000]),
            (held, ("a_float",), ["floatarray", 32, 3], "a_float", 2, 1e39), (held, ("a_bytes",), ["bytearray", 3], "a_bytes", 0, 256),
            (nest, ("inner", "u"), ["intarray", 16, False, 3], "u", 1, -1), (nest, ("inners",), None, "inners", 0, (1, 2.0, "x", [1, 2, 3]))]
    for top, path, kind, vname, key, bad in todo:
        v = views.get(vname)
        if v is None:
            continue
        mon.bump("writes_through_views_bound_inside_disable_block")
        before = bytes(top)
        try:
            v[key] = bad
            accepted = True
        except Exception:
            accepted = False
        if accepted or bytes(top) != before:
            mon.V.append({"mech": "validation_off_for_view_bound_inside_disable_block:" + ("exception" if raise_at is not None else "normal"),
                          "detail": f"{type(top).__name__}.{'.'.join(path)}[{key!r}] = {bad!r} {how}: "
                                    f"{'accepted' if accepted else 'refused'}, message bytes {'changed' if bytes(top) != before else 'unchanged'}"})


def _after_blocks(mon, mod, levels, raise_at, tag):
    # validation must be in force again
    top2 = mod.MDF_FSCALARS()
    for path, kind, v in ((("f_int8",), ["int", 8, True], 1000), (("f_uint16",), ["int", 16, False], -1), (("f_float",), ["float", 32], 1e39),
                          (("f_char",), ["char"], "ab"), (("f_byte",), ["byte"], 256)):
        parent, name = resolve(top2, path)
        n0 = len(mon.V)
        mon.attempt(top2, path, kind, lambda: setattr(parent, name, v), lambda: getattr(parent, name), "refuse", None,
                    f"= {v!r} after disable block(s) {levels} left {'by exception at level ' + str(raise_at) if raise_at is not None else 'normally'}")
        for x in mon.V[n0:]:
            if x["mech"].startswith("out_of_domain_accepted"):
                x["mech"] = "validation_off_" + (tag or "after_disable_block") + ":" + ("exception" if raise_at is not None else "normal")
    a = mod.MDF_FARRAYS3()
    n0 = len(mon.V)
    mon.attempt(a, ("a_int16",), ["intarray", 16, True, 3], lambda: setattr(a, "a_int16", [1, 70000, 2]), None, "refuse", None,
                f"= [1,70000,2] after disable block(s) {levels} raise_at={raise_at}")
    for x in mon.V[n0:]:
        if x["mech"].startswith("out_of_domain_accepted"):
            x["mech"] = "validation_off_" + (tag or "after_disable_block") + ":" + ("exception" if raise_at is not None else "normal")
    return
    try:
        from pyrtma import validators as _v
        _v._VALIDATION_ENABLED.set(True)
    except Exception:
        pass


# ------------------------------------------------------------------------------------------------ cases
def gen_cases(tier, seed):
    rng = random.Random(f"c09-{seed}")
    _, kinds = field_rig.yaml_text()
    cases = []
    reps = 3 if tier == "quick" else 200
    for cname, table in kinds.items():
        paths = list(walk(table))
        for r in range(reps):
            # split big classes so shards stay balanced
            for i in range(0, len(paths), 6):
                cases.append({"mode": "fields", "cls": cname, "lo": i, "hi": i + 6, "seed": rng.getrandbits(32)})
    nhist = 200 if tier == "quick" else 30000
    for i in range(nhist):
        cases.append({"mode": "history", "cls": rng.choice(list(kinds)), "seed": rng.getrandbits(32), "len": 300})
    shapes = []
    for depth in (1, 2, 3):
        for flags in range(1 << depth):
            levels = [bool(flags >> i & 1) for i in range(depth)]
            for raise_at in [None] + list(range(depth + 1)):
                shapes.append({"levels": levels, "raise_at": raise_at})
                if raise_at in (None, 0):
                    # the same, with another thread sitting inside a disable block of its own while this thread checks
                    shapes.append({"levels": levels, "raise_at": raise_at, "other_thread": True})
    for special in ("decorated_recursive", "same_object_nested", "same_object_sequential"):
        for depth in (1, 2, 3):
            for raise_at in (None, 0):
                for other in (False, True):
                    shapes.append({"levels": [False] * depth, "raise_at": raise_at, "special": special, **({"other_thread": True} if other else {})})
    for i in range(0, len(shapes), 8):
        cases.append({"mode": "disable", "shapes": shapes[i:i + 8], "seed": rng.getrandbits(32)})
    # the repository's own tests with the atomicity contract riding on every validator descriptor
    cases.append({"mode": "repo_tests", "seed": 0, "timeout": 600,
                  "files": ["tests/test_validators.py", "tests/test_json.py", "tests/test_encoding.py", "tests/test_message_version.py"]})
    return cases


def run_case(case, tier):
    mod, kinds = field_rig.load()
    res = {"violations": [], "counters": {}, "sets": {}, "sig": sig_of({k: case[k] for k in case if k != "n"}), "nontrivial": False}
    mon = Monitor(res)
    rng = random.Random(case["seed"])
    if case["mode"] == "repo_tests":
        import json as _json, os as _os, subprocess as _sp, sys as _sys
        repo = _os.environ.get("VF_REPO", "/repo")
        rep = _os.path.join(_os.environ["VF_SCRATCH"], f"contracts-{_os.getpid()}.json")
        env = dict(_os.environ, VF_CONTRACT_REPORT=rep, PYTHONPATH=_os.environ.get("VF_ROOT", "/verif") + ":" + repo + "/src")
        r = _sp.run([_sys.executable, "-m", "pytest", "-q", "-p", "no:cacheprovider", "-p", "vf.contracts_plugin"] + case["files"], cwd=repo, env=env,
                    stdin=_sp.DEVNULL, capture_output=True, text=True, timeout=550)
        if not _os.path.exists(rep):
            res["inconclusive"] = "contract plugin produced no report: " + (r.stdout + r.stderr)[-400:]
            return res
        st = _json.load(open(rep))
        mon.bump("contract_evaluations_in_repo_tests", st["evaluations"])
        mon.bump("contract_raising_assignments_in_repo_tests", st["raised"])
        for v in st["violations"]:
            mon.V.append({"mech": "not_atomic_in_repo_tests:" + v["where"], "detail": f"while the repository's own tests ran: {v}"})
        if st["evaluations"] == 0:
            res["inconclusive"] = "contracts were never evaluated while the repository's tests ran (wrappers bypassed)"
        res["nontrivial"] = st["raised"] > 0
        res["sample"] = {"repo_tests": case["files"], "contract_evaluations": st["evaluations"], "raising": st["raised"], "pytest_exit": st["exitstatus"]}
        return res
    if case["mode"] == "disable":
        for sh in case["shapes"]:
            disable_program(mon, mod, rng, sh)
            res["sets"].setdefault("disable_shapes", []).append([sh["levels"], sh["raise_at"]])
        res["nontrivial"] = True
        res["sample"] = {"disable_shapes": case["shapes"][:3]} if case.get("n", 0) % 5 == 0 else None
        return res
    cname = case["cls"]
    cls = getattr(mod, "MDF_" + cname)
    table = kinds[cname]
    paths = list(walk(table))
    if case["mode"] == "fields":
        top = cls.from_random() if rng.random() < 0.5 else cls()
        other = cls.from_random()
        for path, kind in paths[case["lo"]:case["hi"]]:
            run_field(mon, mod, top, list(path), kind, rng, other)
            res["sets"].setdefault("field_kinds", []).append([kind[0]] + [x for x in kind[1:] if isinstance(x, (int, bool))])
    else:
        top = cls()
        other = cls.from_random()
        leafs = [(p, k) for p, k in paths]
        for _ in range(case["len"]):
            path, kind = rng.choice(leafs)
            k = kind[0]
            parent, name = resolve(top, list(path))
            region = field_region(top, list(path))
            if k in ("int", "float", "char", "byte", "string"):
                pool = (int_values(kind[1], kind[2]) if k == "int" else float_values(kind[1]) if k == "float" else CHAR_VALUES if k == "char"
                        else BYTE_VALUES if k == "byte" else string_values(kind[1]))
                v = rng.choice(pool)
                verdict, canon = FD.classify_scalar(kind, v)
                mon.attempt(top, list(path), kind, lambda: setattr(parent, name, v), lambda: getattr(parent, name), verdict, canon, f"= {v!r:.40}", region)
            elif k in ("intarray", "floatarray", "bytearray"):
                n = kind[-1] if k != "intarray" else kind[3]
                ek = FD.elem_kind(kind)
                pool = (int_values(ek[1], ek[2]) if ek[0] == "int" else float_values(ek[1]) if ek[0] == "float" else BYTE_VALUES)
                seq = [rng.choice(pool) if rng.random() < 0.15 else (rng.randint(0, 100) if ek[0] != "float" else rng.random()) for _ in range(rng.choice([n, n, n, n - 1, n + 1]))]
                verdict, canon = FD.classify_sequence(kind, seq, n)
                rb = (lambda: list(getattr(parent, name)[:])) if k != "bytearray" else (lambda: list(bytes(getattr(parent, name)[:])))
                mon.attempt(top, list(path), kind, lambda: setattr(parent, name, seq), rb, verdict, canon, f"= {seq!r:.60}", region, FD.seq_equal)
    res["sets"]["accepted_kinds"] = sorted(mon.accepted_kinds)
    if case.get("n", 0) % 19 == 0:
        res["sample"] = {"case": {k: case[k] for k in case if k != "n"}, "paths": [fmt(p) for p, _ in paths[case.get("lo", 0):case.get("hi", 4)]][:6]}
    return res


def post_merge(results, tier, seed):
    acc = set()
    for r in results:
        for k in (r.get("sets") or {}).get("accepted_kinds", []):
            acc.add(k)
    need = {"int", "float", "char", "byte", "string", "intarray", "floatarray", "bytearray", "struct", "structarray"}
    out = {"violations": [], "counters": {"kinds_with_an_accepted_assignment": len(acc & need)}, "inconclusive": []}
    if results and not need <= acc:
        out["inconclusive"].append(f"no in-domain assignment was ever accepted for kinds {sorted(need - acc)} (a validator that rejects everything)")
    return out
