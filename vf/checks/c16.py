"""C16 — compilation is deterministic and the shipped core definitions are current.

Monitors: byte comparison of every output file of two compilations of the same closure made in different
processes (PYTHONHASHSEED 0 vs random, different working directory, different absolute location of source and
output tree, CLI vs API); semantic comparison (ids incl. reserved ids, hashes, sizes, field tables with offsets)
of the original closure with the recompiled <name>_combined.yaml; semantic signature of core_defs.py regenerated
with the documented build_core_defs.sh command versus the shipped file.
"""
from __future__ import annotations

import filecmp
import logging
import os
import random
import shutil
from pathlib import Path

from vf.driver import sig_of
from vf.gen import defs as G
from vf.loaders import langs as L
from vf.rig import compiler_rig as CR

REPO = os.environ.get("VF_REPO", "/repo")
ID = "C16"
LEVEL = "exploration"
RULE = ("cases = generated closures (all import-graph shapes; including two files that both reserve ids) each compiled twice "
        "(process A: CLI, PYTHONHASHSEED=0, cwd=/ ; process B: API, random hash seed, other cwd, other absolute location) with all "
        "six outputs compared byte for byte, then the combined YAML of run A recompiled and compared semantically with the "
        "original; plus the shipped core YAMLs regenerated and compared with core_defs.py. Non-trivial = closure with >= 2 "
        "definitions; distinct = hash of the file texts")
ASSUMPTIONS = ["the two runs keep the same relative placement of output directory and source tree (the info .txt output starts with a "
               "comment holding its own path relative to the definition root)",
               "byte differences between regenerated and shipped core_defs.py are reported as information (formatter versions may "
               "differ); the semantic signature must be equal"]
REQUIRE = {"compiled_with_relative_paths": 12, "combined_recompiled_through_cli": 8, "outputs_compiled_alone": 60, "compiled_into_used_directory": 30, "closures_compiled_twice": 25, "output_files_compared": 150, "combined_roundtrips": 25, "core_defs_classes_compared": 50}
CASE_TIMEOUT = 300
OUTS = ["out.py", "out.h", "out.js", "out.m", "out_combined.yaml", "out.txt"]


def gen_cases(tier, seed):
    rng = random.Random(f"c16-{seed}")
    n = 40 if tier == "quick" else 800
    cases = [{"mode": "twice", "seed": rng.getrandbits(40), "reserve2": i % 3 == 0} for i in range(n)]
    # several compilations inside ONE interpreter (API): A, B, A again - outputs of A must not depend on what was compiled before
    for i in range(6 if tier == "quick" else 100):
        cases.append({"mode": "same_process", "seed": rng.getrandbits(40), "seed_b": rng.getrandbits(40)})
    cases.append({"mode": "core", "seed": 0})
    return cases


def model_sig(parser, skip_core_names=()):
    sig = {}
    for n, m in parser.message_defs.items():
        sig["M:" + n] = [m.type_id, m.hash[:8], m.size, [(f.name, f.type_name, f.length, f.offset) for f in m.fields]]
    for n, s in parser.struct_defs.items():
        sig["S:" + n] = [None, s.hash[:8], s.size, [(f.name, f.type_name, f.length, f.offset) for f in s.fields]]
    for n, c in parser.constants.items():
        sig["K:" + n] = c.value
    for n, c in parser.string_constants.items():
        sig["STR:" + n] = c.value
    for n, c in parser.module_ids.items():
        sig["MID:" + n] = c.value
    for n, c in parser.host_ids.items():
        sig["HID:" + n] = c.value
    for n, a in parser.aliases.items():
        sig["A:" + n] = a.type_name
    return sig


def quiet_parser(**kw):
    from pyrtma.parser import Parser
    p = Parser(**kw)
    p.logger.setLevel(logging.CRITICAL)
    for h in list(p.logger.handlers):
        p.logger.removeHandler(h)
    return p


def run_case(case, tier):
    res = {"violations": [], "counters": {}, "sets": {}, "sig": None, "nontrivial": False}
    V, C = res["violations"], res["counters"]
    work = Path(os.environ["VF_SCRATCH"]) / f"c16-{os.getpid()}-{case['n']}"
    try:
        if case["mode"] == "core":
            return run_core(case, res, work)
        if case["mode"] == "same_process":
            return run_same_process(case, res, work)
        rng = random.Random(case["seed"])
        prog = G.gen_program(case["seed"], allow_known=False, shape=("siblings" if case["reserve2"] else None))
        if case["reserve2"]:
            # make sure at least two files reserve ids
            k = 0
            used = {d["id"] for d in prog["desc"]["defs"].values() if d.get("id") is not None} | set(prog["desc"]["reserved"])
            base = next(b for b in range(8800, 200, -20) if not any(x in used for x in range(b, b + 20)))   # a window free of generated ids
            for rel in list(prog["files"]):
                if "_RESERVED_" not in prog["files"][rel] and k < 2:
                    rid = base + 10 * k
                    prog["files"][rel] = prog["files"][rel].replace("message_defs:\n", f"message_defs:\n  _RESERVED_:\n    id: [{rid}, {rid + 2} - {rid + 4}]\n", 1)
                    if f"[{rid}," in prog["files"][rel]:
                        prog["desc"]["reserved"] += [rid, rid + 2, rid + 3, rid + 4]
                        k += 1
        res["sig"] = sig_of(prog["files"])
        res["nontrivial"] = len(prog["desc"]["defs"]) >= 2
        a = CR.build(prog, work / "A" / "t", cli=True, hashseed="0", cwd="/")
        b = CR.build(prog, work / "B" / "deeper" / "t", cli=False, hashseed="random", cwd=str(work))
        if a.rc != 0 or b.rc != 0:
            V.append({"mech": "compile_failed:" + str(a.failure or b.failure), "detail": (a.text if a.rc else b.text)[-300:]})
            return res
        C["closures_compiled_twice"] = 1
        # third time: the same files named through a symbolic link to their directory (relative path, other cwd)
        link = work / "L" / "viaLink"
        link.parent.mkdir(parents=True, exist_ok=True)
        os.symlink(a.root.parent, link, target_is_directory=True)
        (work / "L" / "out").mkdir()
        rc3, txt3 = L.compile_closure(Path("viaLink") / a.root.name, work / "L" / "out", name="out", langs=("py", "c", "js", "mat", "combined"),
                                      cli=True, cwd=str(work / "L"), hashseed="3")
        if rc3 != 0:
            V.append({"mech": "compile_failed_through_symlink:" + str(L.classify_compile_failure(rc3, txt3)), "detail": txt3[-300:]})
        else:
            C["compiled_through_symlink"] = 1
            for f in OUTS:
                fa, fl = a.out / f, work / "L" / "out" / f
                if fa.exists() and fl.exists() and fa.read_bytes() != fl.read_bytes():
                    la, lb = fa.read_text(errors="replace").splitlines(), fl.read_text(errors="replace").splitlines()
                    i = next((k for k in range(min(len(la), len(lb))) if la[k] != lb[k]), min(len(la), len(lb)))
                    V.append({"mech": f"outputs_differ_through_symlink:{f.split('.')[-1]}", "detail": f"{f} line {i + 1}: {la[i:i + 1]} vs {lb[i:i + 1]}"})
                    break
        # the same closure compiled with RELATIVE paths (definition file and an output directory with a directory component,
        # as in the repository's own build scripts): the bytes written do not depend on how the paths were spelled
        if case["n"] % 2 == 0:
            rel_cwd = a.root.parent.parent
            rel_out = Path("relout") / "gen"
            (rel_cwd / rel_out).mkdir(parents=True)
            rcr, txtr = L.compile_closure(Path(a.root.parent.name) / a.root.name, rel_out, name="out", langs=("py", "c", "js", "mat", "combined"),
                                          cli=True, cwd=str(rel_cwd), hashseed="4")
            if rcr != 0:
                V.append({"mech": "compile_failed_with_relative_paths:" + str(L.classify_compile_failure(rcr, txtr)), "detail": txtr[-300:]})
            else:
                C["compiled_with_relative_paths"] = 1
                for f in ("out.py", "out.h", "out.js", "out.m", "out_combined.yaml"):
                    if (rel_cwd / rel_out / f).read_bytes() != (a.out / f).read_bytes():
                        la, lb = (a.out / f).read_text(errors="replace").splitlines(), (rel_cwd / rel_out / f).read_text(errors="replace").splitlines()
                        i = next((k for k in range(min(len(la), len(lb))) if la[k] != lb[k]), min(len(la), len(lb)))
                        V.append({"mech": f"outputs_differ_with_relative_paths:{f.split('.')[-1]}", "detail": f"{f} line {i + 1}: {la[i:i + 1]} vs {lb[i:i + 1]}"})
                        break
        # each output asked for on its own (CLI, one flag): what else is generated in the same call has no say in it
        for lang, f in (("c", "out.h"), ("mat", "out.m"), ("js", "out.js"), ("py", "out.py"), ("combined", "out_combined.yaml"))[case["n"] % 2::2]:
            od = work / "solo" / lang
            od.mkdir(parents=True)
            rc1, txt1 = L.compile_closure(a.root, od, name="out", langs=(lang,), cli=True, hashseed="1")
            C["outputs_compiled_alone"] = C.get("outputs_compiled_alone", 0) + 1
            if rc1 != 0:
                V.append({"mech": "compile_failed_alone:" + str(L.classify_compile_failure(rc1, txt1)), "detail": f"only --{lang}: {txt1[-300:]}"})
            elif (od / f).read_bytes() != (a.out / f).read_bytes():
                la, lb = (a.out / f).read_text(errors="replace").splitlines(), (od / f).read_text(errors="replace").splitlines()
                i = next((k for k in range(min(len(la), len(lb))) if la[k] != lb[k]), min(len(la), len(lb)))
                V.append({"mech": f"output_depends_on_other_outputs_requested:{f.split('.')[-1]}",
                          "detail": f"{f} line {i + 1}: all outputs in one call {la[i:i + 1]} vs this output alone {lb[i:i + 1]}"})
        for f in OUTS:
            fa, fb = a.out / f, b.out / f
            C["output_files_compared"] = C.get("output_files_compared", 0) + 1
            if not fa.exists() or not fb.exists():
                V.append({"mech": "output_missing", "detail": f"{f}: {fa.exists()} {fb.exists()}"})
            elif fa.read_bytes() != fb.read_bytes():
                la, lb = fa.read_text(errors="replace").splitlines(), fb.read_text(errors="replace").splitlines()
                i = next((k for k in range(min(len(la), len(lb))) if la[k] != lb[k]), min(len(la), len(lb)))
                V.append({"mech": f"outputs_differ_between_runs:{f.split('.')[-1]}", "detail": f"{f} line {i + 1}: {la[i:i + 1]} vs {lb[i:i + 1]}"})
        # combined YAML round trip
        p0 = quiet_parser()
        p0.parse(a.root)
        s0 = model_sig(p0)
        comb = a.out / "out_combined.yaml"
        p1 = quiet_parser(import_coredefs=False)
        try:
            p1.parse(comb)
        except Exception as e:
            V.append({"mech": f"combined_yaml_does_not_compile:{type(e).__name__}", "detail": str(e)[:300]})
            return res
        C["combined_roundtrips"] = 1
        s1 = model_sig(p1)
        lost = sorted(set(s0) - set(s1))
        extra = sorted(set(s1) - set(s0))
        if lost:
            mech = "combined_yaml_loses_reserved_ids" if all("_RESERVED_" in x for x in lost) else "combined_yaml_loses_definitions"
            V.append({"mech": mech, "detail": f"missing after the round trip: {lost[:8]} ({len(lost)} in all); files reserving ids: "
                                              f"{[r for r, t in prog['files'].items() if '_RESERVED_' in t]}"})
        if extra:
            V.append({"mech": "combined_yaml_invents_definitions", "detail": f"{extra[:8]}"})
        for k in set(s0) & set(s1):
            if s0[k] != s1[k]:
                V.append({"mech": "combined_yaml_changes_definition", "detail": f"{k}: {str(s0[k])[:200]} became {str(s1[k])[:200]}"})
                break
        if case["n"] % 3 == 0:
            # the combined YAML compiled again the way a user would (command line, which honours the options written in it):
            # sizes and layouts of the Python classes must be those of the original compilation
            od = work / "recombined"
            od.mkdir()
            rc2, txt2 = L.compile_closure(comb, od, name="out", langs=("py",), cli=True, hashseed="2")
            if rc2 != 0:
                V.append({"mech": "combined_yaml_does_not_compile:cli", "detail": txt2[-300:]})
            else:
                (work / "lpa").mkdir()
                (work / "lpb").mkdir()
                pa, pb = L.load_py(a.out / "out.py", work / "lpa"), L.load_py(od / "out.py", work / "lpb")
                if pa.get("ok") and pb.get("ok"):
                    C["combined_recompiled_through_cli"] = 1
                    for cname, ca in pa["classes"].items():
                        cb = pb["classes"].get(cname)
                        if cb is None:
                            V.append({"mech": "combined_yaml_loses_definitions", "detail": f"{cname} missing from the module compiled from the combined YAML"})
                            break
                        bad = [k for k in ("type_id", "type_size", "sizeof", "fields") if ca.get(k) != cb.get(k)]
                        if bad:
                            V.append({"mech": "combined_yaml_changes_definition:cli", "detail": f"{cname}.{bad[0]}: {str(ca.get(bad[0]))[:160]} became {str(cb.get(bad[0]))[:160]}; "
                                                                                           f"options in the combined file: {[l.strip() for l in comb.read_text().splitlines() if l.strip().startswith(('AUTO_PAD', 'VALIDATE', 'IMPORT_COREDEFS'))]}"})
                            break
        res["sets"]["shape"] = [prog["shape"]]
        if case["n"] % 9 == 0:
            res["sample"] = {"seed": case["seed"], "shape": prog["shape"], "files": list(prog["files"]), "outputs_compared": OUTS}
        return res
    finally:
        shutil.rmtree(work, ignore_errors=True)


def run_core(case, res, work):
    V, C = res["violations"], res["counters"]
    res["sig"] = "core"
    res["nontrivial"] = True
    work.mkdir(parents=True, exist_ok=True)
    # the documented command (src/pyrtma/build_core_defs.sh), run with a scratch output directory
    r = L.run(["/venv/bin/python", "-m", "pyrtma.compile", "-i", "core_defs/core_defs.yaml", "-o", str(work), "--py"], cwd=REPO + "/src/pyrtma")
    regen = work / "core_defs.py"
    if r.returncode != 0 or not regen.exists():
        V.append({"mech": "core_defs_regeneration_failed", "detail": (r.stdout + r.stderr)[-400:]})
        return res
    a = L.load_py(regen, work)
    (work / "shipped").mkdir(exist_ok=True)
    shutil.copy(REPO + "/src/pyrtma/core_defs.py", work / "shipped" / "core_defs.py")
    b = L.load_py(work / "shipped" / "core_defs.py", work / "shipped")
    if not a.get("ok") or not b.get("ok"):
        V.append({"mech": "core_defs_does_not_load", "detail": f"{a.get('error')} / {b.get('error')}"})
        return res
    va = {k: v for k, v in a["values"].items() if k != "COMPILED_PYRTMA_VERSION"}
    vb = {k: v for k, v in b["values"].items() if k != "COMPILED_PYRTMA_VERSION"}
    if va != vb:
        diff = [k for k in set(va) | set(vb) if va.get(k) != vb.get(k)]
        V.append({"mech": "core_defs_stale:values", "detail": f"constants/ids differ between the shipped core_defs.py and the YAML: {[(k, vb.get(k), va.get(k)) for k in diff[:6]]}"})
    for name in sorted(set(a["classes"]) | set(b["classes"])):
        C["core_defs_classes_compared"] = C.get("core_defs_classes_compared", 0) + 1
        ca, cb = a["classes"].get(name), b["classes"].get(name)
        if ca is None or cb is None:
            V.append({"mech": "core_defs_stale:class_set", "detail": f"{name}: regenerated={ca is not None} shipped={cb is not None}"})
            continue
        for key in ("type_id", "type_hash", "type_size", "sizeof", "fields"):
            if ca[key] != cb[key]:
                V.append({"mech": f"core_defs_stale:{key}", "detail": f"{name}.{key}: shipped {str(cb[key])[:160]} vs regenerated from YAML {str(ca[key])[:160]}"})
                break
    C["core_defs_bytes_identical"] = int(regen.read_bytes() == Path(REPO + "/src/pyrtma/core_defs.py").read_bytes())
    res["sample"] = {"core_defs_classes": len(a["classes"]), "bytes_identical": bool(C["core_defs_bytes_identical"])}
    return res


def run_same_process(case, res, work):
    import json as _json
    V, C = res["violations"], res["counters"]
    A = G.gen_program(case["seed"], allow_known=False, shape="siblings")
    B = G.gen_program(case["seed_b"], allow_known=False, tag="B")
    res["sig"] = sig_of([A["files"], B["files"]])
    res["nontrivial"] = True
    ra = G.write_closure(A, work / "A" / "src")
    rb = G.write_closure(B, work / "B" / "src")
    # a namesake of A compiled first in the same interpreter: the same files and names, but the native types behind
    # aliases and fields are other ones (what a lab's second rig, or yesterday's version of the definitions, looks like)
    import re as _re
    swap = {"int16": "int32", "int32": "int16", "float": "double", "double": "float", "uint8": "uint16", "uint16": "uint8",
            "int64": "int32", "uint32": "uint64", "uint64": "uint32", "int8": "int16"}
    Z = dict(A, files={f: _re.sub(r"(?m)^(\s+[A-Za-z_]\w*: )(u?int(?:8|16|32|64)|float|double)\b",
                                  lambda m: m.group(1) + swap.get(m.group(2), m.group(2)), t) for f, t in A["files"].items()})
    rz = G.write_closure(Z, work / "Z" / "src")
    for d in ("o0", "o1", "o2", "o3", "cli"):
        (work / d).mkdir(parents=True)
    kw = "python=True, javascript=True, matlab=True, c_lang=True, combined=True, info=False"
    code = ("import os\nfrom pyrtma.compile import compile\n"
            f"try:\n    compile([{str(rz)!r}], {str(work / 'o0')!r}, 'out', {kw})\nexcept BaseException:\n    pass\n"
            f"compile([{str(ra)!r}], {str(work / 'o1')!r}, 'out', {kw})\n"
            f"os.chdir({str(work)!r})\ncompile([{str(rb)!r}], {str(work / 'o2')!r}, 'out', {kw})\n"
            f"os.chdir('/')\ncompile([{str(ra)!r}], {str(work / 'o3')!r}, 'out', {kw})\n"
            # and once more into the directory that still holds the outputs of the other closure
            f"compile([{str(ra)!r}], {str(work / 'o2')!r}, 'out', {kw})\n")
    r = L.run(["/venv/bin/python", "-c", code])
    if r.returncode != 0:
        V.append({"mech": "compile_failed:same_process", "detail": (r.stdout + r.stderr)[-400:]})
        return res
    rc, txt = L.compile_closure(ra, work / "cli", name="out", langs=("py", "c", "js", "mat", "combined"), cli=True, hashseed="7")
    if rc != 0:
        V.append({"mech": "compile_failed:cli", "detail": txt[-300:]})
        return res
    # a fresh process writing into the directory that holds the outputs of the namesake closure (all newer than the sources)
    rc, txt = L.compile_closure(ra, work / "o0", name="out", langs=("py", "c", "js", "mat", "combined"), cli=True, hashseed="5")
    if rc != 0:
        V.append({"mech": "compile_failed:cli", "detail": txt[-300:]})
        return res
    C["same_process_runs"] = 1
    for f in ("out.py", "out.h", "out.js", "out.m", "out_combined.yaml"):
        for d, what in (("o2", "another closure"), ("o0", "a namesake closure")):
            C["compiled_into_used_directory"] = C.get("compiled_into_used_directory", 0) + 1
            if (work / d / f).read_bytes() != (work / "o1" / f).read_bytes():
                V.append({"mech": f"output_depends_on_what_the_directory_held:{f.split('.')[-1]}",
                          "detail": f"{f}: compiled into a directory that held the outputs of {what} differs from the same closure compiled into an empty directory"})
                break
        a1, a3, ac = (work / "o1" / f).read_bytes(), (work / "o3" / f).read_bytes(), (work / "cli" / f).read_bytes()
        C["output_files_compared"] = C.get("output_files_compared", 0) + 2
        if a1 != a3:
            V.append({"mech": f"output_depends_on_earlier_compilations:{f.split('.')[-1]}", "detail": f"{f}: first and third compilation of the same closure in one interpreter differ "
                                                                                             f"({len(a1)} vs {len(a3)} bytes) after another closure was compiled in between"})
        elif a1 != ac:
            V.append({"mech": f"outputs_differ_between_runs:{f.split('.')[-1]}", "detail": f"{f}: API (in-process) vs CLI (fresh process) differ"})
    return res
