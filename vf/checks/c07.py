"""C07 — a departed client leaves no trace.

Fault enumeration: way of leaving x protocol stage x (alone | with a second departure in the same round) x
service order. Monitors at the socket boundary: CLIENT_CLOSED frames at a monitor client (matched to the
departed connection by its address/port), outcome of an immediate reconnect with the same id and name,
deliveries of the in-flight message and of later probes to the survivors, FAILED_MESSAGE frames after the
departure, manager liveness.
"""
from __future__ import annotations

import itertools
import random
import struct

from vf.rig import wire as W
from vf.rig.manager_rig import ManagerRig
from vf.rig.scenario import Scenario, stream_checks
from vf.models.router import ALL
from vf.driver import sig_of

ID = "C07"
LEVEL = "fault_enumeration"
STAGES = ["accepted", "connected", "sub", "suball", "paused", "logger", "accepted_sub", "accepted_suball", "sub_unsuball", "sub_pauseall"]
WAYS = ["disc", "fin", "rst", "partial_fin", "partial_rst", "write", "refused_dup", "refused_range", "refused_name", "frame_fin", "frame_rst"]
RULE = ("cases = way of leaving {DISCONNECT, FIN, RST, FIN/RST after every byte offset of a frame it was sending, reset "
        "discovered while the manager writes to it, refusal at connect (duplicate id, id out of range, duplicate name)} x "
        "stage {accepted, connected, subscribed, sub-all, paused, logger, subscribed to single types then unsubscribed/paused with ALL_MESSAGE_TYPES} x {alone, second departure in the same round} x "
        "third-party traffic in that round {publication, control frame} x every service order of the ready set; "
        "non-trivial = the departed held an id or subscriptions (stage != accepted) or was refused; distinct = distinct descriptor")
ASSUMPTIONS = ["CLIENT_CLOSED is matched to the departed connection by the client address/port it carries",
               "for a client that closed with FIN, a write by the manager before it services the EOF may succeed or fail",
               "harness clients are drained; every surviving connection is writable"]
REQUIRE = {"acks_into_a_reset_connection": 40, "ack_copies_at_surviving_logger_checked": 3000, "departures_while_not_writable": 40, "departures": 150, "client_closed_matched": 150, "reconnects_checked": 60, "probe_deliveries_checked": 150,
           "timing_pid_tables_checked": 100}
CASE_TIMEOUT = 60
T, T2 = 1234, 4321
FRAME_LEN = {"pub": 48 + 16, "sub": 48 + 4, "hello": 48 + 44}


def frame_for(kind, mod_id):
    if kind == "pub":
        return W.frame_bytes(T, b"\x55" * 16, src_mod=mod_id, send_time=5.0)
    if kind == "sub":
        return W.frame_bytes(W.MT_SUBSCRIBE, W.p_sub(T2), src_mod=mod_id)
    return W.frame_bytes(W.MT_CONNECT_V2, W.p_connect_v2(0, 0, 0, mod_id, 1, b"dd"), src_mod=mod_id)


def dep_steps(L, idn, name, d, tcode):
    """returns (setup_steps, leave_steps, excluded_from_round)"""
    stage, way = d["stage"], d["way"]
    setup, leave = [], []
    if way.startswith("refused"):
        # the departing connection is a newcomer whose handshake must be refused
        hello = {"refused_dup": {"mod_id": 12, "name": ""}, "refused_range": {"mod_id": d.get("bad_id", 150), "name": name},
                 "refused_name": {"mod_id": idn, "name": "surv"}}[way]
        leave = [["open", L], ["round", {"only": []}]]
        if d.get("pre_sub"):
            leave += [["sub", L, T], ["round", {"only": [L]}]]
        leave.append(["hello", L, dict(hello, v2=True)])
        return setup, leave, False
    setup.append(["open", L])
    if stage.startswith("accepted_"):
        # subscribes without ever completing CONNECT (the manager accepts SUBSCRIBE on any accepted socket)
        setup += [["drain"], ["sub", L, ALL if stage == "accepted_suball" else T]]
    elif stage != "accepted":
        setup.append(["hello", L, {"mod_id": idn, "name": name, "logger": int(stage == "logger"), "pid": 7000 + idn}])
        setup.append(["drain"])
        if stage in ("sub", "paused"):
            setup.append(["sub", L, T])
        if stage == "paused":
            setup += [["sub", L, T2], ["pause", L, T2]]
        if stage in ("suball", "logger"):
            setup.append(["sub", L, ALL])
        if stage in ("sub_unsuball", "sub_pauseall"):
            # holds individual subscriptions and then names ALL_MESSAGE_TYPES in an UNSUBSCRIBE / PAUSE_SUBSCRIPTION
            setup += [["sub", L, T], ["sub", L, T2], ["unsub" if stage == "sub_unsuball" else "pause", L, ALL]]
    setup.append(["drain"])
    excl = False
    if way == "disc":
        leave = [["disc", L]]
    elif way in ("fin", "rst"):
        leave = [["close", L, way], ["await_closed", L]]
    elif way in ("partial_fin", "partial_rst"):
        fk = d.get("frame", "pub")
        if stage.startswith("accepted"):
            fk = "hello"
        data = frame_for(fk, idn)
        if tcode:
            data = data[:48] + b"\0" * 8 + data[48:]
        off = max(1, min(d.get("off", 10), len(data) - 1))
        leave = [["raw", L, data[:off].hex(), 0], ["close", L, way[-3:]], ["await_closed", L]]
    elif way in ("frame_fin", "frame_rst"):
        # a complete last request is queued, then the connection is closed / reset before the manager has answered it
        fk = d.get("frame", "sub")
        mt = {"sub": W.MT_SUBSCRIBE, "resume": W.MT_RESUME, "unsub": W.MT_UNSUBSCRIBE, "pause": W.MT_PAUSE}.get(fk)
        data = W.frame_bytes(mt, W.p_sub(T2), src_mod=idn, timecode=tcode) if mt else W.frame_bytes(T, b"\x66" * 16, src_mod=idn, send_time=6.0, timecode=tcode)
        leave = [["raw", L, data.hex(), 1, f"complete {fk} frame then {way[-3:]}"], ["close", L, way[-3:]], ["await_closed", L]]
    elif way == "write":
        leave = [["close", L, "rst"], ["await_closed", L]]
        excl = True
    return setup, leave, excl


def build(c):
    tcode = bool(c.get("tc"))
    steps = [["open", "P"], ["hello", "P", {"mod_id": 10}], ["open", "M"], ["hello", "M", {"mod_id": 11}],
             ["open", "S"], ["hello", "S", {"mod_id": 12, "name": "surv"}],
             # a logger among the survivors: it is owed a copy of every acknowledgement, also of the one during whose
             # fan-out a departing logger is found dead
             ["open", "G"], ["hello", "G", {"mod_id": 13, "logger": 1}], ["drain"],
             # (G2 and G3 are two instances of one module id: every logger connection is owed its copies)
             ["open", "G2"], ["hello", "G2", {"mod_id": 14, "logger": 1, "allow_multiple": 1}], ["open", "G3"], ["hello", "G3", {"mod_id": 14, "logger": 1, "allow_multiple": 1}], ["drain"],
             ["sub", "M", W.MT_CLIENT_CLOSED], ["sub", "M", W.MT_CLIENT_INFO], ["sub", "M", W.MT_FAILED_MESSAGE],
             ["sub", "S", T], ["drain"]]
    if c.get("tm"):
        steps += [["sub", "M", W.MT_TIMING], ["sub", "M", W.MT_ACTIVE_CLIENTS], ["drain"]]
    deps = [("D", 20, "dd", c["d1"])] + ([("E", 21, "ee", c["d2"])] if c.get("d2") else [])
    leaves, excluded = [], []
    for L, idn, name, d in deps:
        setup, leave, excl = dep_steps(L, idn, name, d, tcode)
        steps += setup
        leaves += leave
        if excl:
            excluded.append(L)
    if c.get("tm"):
        # one statistics report while the clients that are about to leave are still connected
        # (P sends a request in that round: the manager refreshes its writability snapshot only in rounds with input)
        steps += [["sub", "P", 556], ["round", {"only": ["P"], "adv": 1.5}], ["drain", {"adv": 0.001}]]
    if c["trigger"] == "hello":
        # the third party of the round is a newcomer with an explicit id and a name (accepted in a round of its own first)
        steps += [["open", "N"], ["round", {"only": []}]]
    steps += leaves
    if c["trigger"] == "pub":
        steps.append(["pub", "P", T, 0, 0, 16])
    elif c["trigger"] == "hello":
        steps.append(["hello", "N", {"mod_id": 40, "name": "newcomer", "v2": True, "pid": 4040}])
    else:
        steps.append(["sub", "P", 555])
    labels = ["N" if c["trigger"] == "hello" else "P"] + [L for L, *_ in deps if L not in excluded]
    perm = list(itertools.permutations(labels))[c["perm"] % len(list(itertools.permutations(labels)))]
    # (some departing clients have fallen behind: the writability snapshot of the round in which they leave does not list them)
    steps.append(["round", {"only": labels, "order": list(perm), "adv": 0.001, "nw": [L for L, idn, name, d in deps if d.get("nw") and L not in excluded]}])
    steps.append(["drain", {"adv": 0.001}])
    steps.append(["mark_departed"])
    if c.get("tm"):
        # a statistics report after the departure and before anybody re-uses the ids
        steps += [["sub", "P", 558], ["round", {"only": ["P"], "adv": 1.5}], ["drain", {"adv": 0.001}]]
    # immediate reconnects with the same id and name
    for L, idn, name, d in deps:
        if d["way"] == "refused_range":
            continue
        rid = 12 if d["way"] == "refused_dup" else idn
        if d["way"] in ("refused_dup", "refused_name"):
            continue  # id/name belong to the incumbent; the incumbent is probed below instead
        steps += [["open", "R" + L], ["hello", "R" + L, {"mod_id": rid, "name": name, "pid": 8000 + idn}]]
    steps.append(["drain", {"adv": 0.001}])
    for L, idn, name, d in deps:
        if not d["way"].startswith("refused"):
            steps.append(["sub", "R" + L, T])
    steps.append(["drain"])
    steps += [["pub", "P", T, 0, 0, 8], ["pub", "P", T2, 0, 0, 8], ["pub", "P", T, "@S", 0, 8], ["pub", "P", 999, 0, 0, 0],
              ["drain", {"adv": 0.001}]]
    if c.get("tm"):
        # (5.5 s: the periodic ACTIVE_CLIENTS list is due as well)
        steps += [["sub", "P", 557], ["round", {"only": ["P"], "adv": 5.5}], ["drain", {"adv": 0.001}]]
    return steps


def gen_cases(tier, seed):
    rng = random.Random(f"c07-{seed}")
    cases = []

    def nperm(c):
        n = 1 + (0 if c["d1"]["way"] == "write" else 1) + (0 if not c.get("d2") or c["d2"]["way"] == "write" else 1)
        return [1, 1, 2, 6][n]

    def add(c):
        for p in range(nperm(c)):
            cases.append(dict(c, perm=p))

    def valid(stage, way):
        if way.startswith("refused"):
            return stage == "accepted"
        if way.startswith("frame_"):
            return not stage.startswith("accepted")
        if stage.startswith("accepted"):
            return way in ("fin", "rst", "partial_fin", "partial_rst")
        return True

    singles = [(s, w) for s in STAGES for w in WAYS if valid(s, w)]
    for s, w in singles:
        for trig in ("pub", "ctl"):
            add({"d1": {"stage": s, "way": w, "off": 20}, "trigger": trig})
    # a named newcomer's handshake in the round of the departure, the manager publishing its log messages (INFO / DEBUG):
    # whatever the handshake makes the manager say reaches - or fails to reach - the departing subscriber
    for s in ("suball", "logger", "sub", "sub_pauseall"):
        for w in ("rst", "write", "fin", "disc", "frame_rst"):
            for lvl in (1, 2):
                add({"d1": {"stage": s, "way": w, "off": 20}, "trigger": "hello", "loudlevel": lvl})
    # a logger found dead while the copies of somebody's acknowledgement are fanned out (several times: the order in
    # which the manager walks its loggers is not under the harness's control)
    for rep in range(8):
        for w in ("write", "rst"):
            add({"d1": {"stage": "logger", "way": w, "off": 20, "rep": rep}, "trigger": "ctl"})
    # the same departures by a client that is not in the round's writability snapshot (it has fallen behind)
    for s, w in singles:
        if w != "write" and not w.startswith("refused"):
            add({"d1": {"stage": s, "way": w, "off": 20, "nw": True}, "trigger": "pub" if (len(s) + len(w)) % 2 else "ctl"})
    # every byte offset of every frame kind, FIN and RST
    step = 1 if tier == "thorough" else 3
    for fk, ln in FRAME_LEN.items():
        for off in range(1, ln, step):
            for how in ("partial_fin", "partial_rst"):
                st = "accepted" if fk == "hello" else rng.choice(["sub", "suball", "connected", "logger"])
                add({"d1": {"stage": st, "way": how, "off": off, "frame": fk}, "trigger": rng.choice(["pub", "ctl"])})
    for w in ("refused_dup", "refused_range", "refused_name"):
        for trig in ("pub", "ctl"):
            add({"d1": {"stage": "accepted", "way": w, "pre_sub": True}, "trigger": trig})
    for st in ("connected", "sub", "paused", "suball", "logger"):
        for fk in ("sub", "resume", "unsub", "pause", "pub"):
            for w in ("frame_fin", "frame_rst"):
                add({"d1": {"stage": st, "way": w, "frame": fk}, "trigger": rng.choice(["pub", "ctl"])})
    for bad in (0x7FFF, -1, 101, 200, 201, -32768):
        add({"d1": {"stage": "accepted", "way": "refused_range", "bad_id": bad}, "trigger": "pub"})
    pairs = [(a, b) for a in singles for b in singles if not (a[1].startswith("refused") and b[1].startswith("refused"))]
    rng.shuffle(pairs)
    npairs = 160 if tier == "quick" else len(pairs)
    for (s1, w1), (s2, w2) in (pairs[:npairs] if tier == "quick" else pairs * 5):
        add({"d1": {"stage": s1, "way": w1, "off": rng.randint(1, 60), "nw": rng.random() < 0.15 and w1 != "write" and not w1.startswith("refused")},
             "d2": {"stage": s2, "way": w2, "off": rng.randint(1, 60)}, "trigger": rng.choice(["pub", "ctl"])})
    for i, c in enumerate(cases):
        c["tc"] = i % 6 == 5
        c["tm"] = i % 3 == 1
    return cases


def run_case(case, tier):
    rig = ManagerRig(stepped=True, timecode=bool(case.get("tc")), loud=case.get("loudlevel") or bool(case.get("n", 0) % 4 == 2))   # every fourth case: the manager publishes its own log messages
    try:
        sc = Scenario(rig, 0)
        steps = build(case)
        mark = steps.index(["mark_departed"])
        sc.run(steps[:mark])
        n_before = None
        if not (sc.crashed or sc.hung):
            rx0 = sc.received()
            n_before = len(rx0["M"]["frames"])
            case = dict(case, _marks={L: len(r["frames"]) for L, r in rx0.items()})
            sc.run(steps[mark + 1:])
        return judge(sc, case, n_before)
    finally:
        rig.close()


def judge(sc, c, n_before):
    res = {"violations": [], "counters": {}, "sets": {}, "sig": sig_of({k: c[k] for k in c if k != "n"}), "nontrivial": False}
    V, C = res["violations"], res["counters"]
    if sc.crashed or sc.hung:
        V.append({"mech": "manager_died:" + crash_kind(sc.rig.crash), "detail": (sc.rig.crash or "hung")[-900:]})
        return res
    if sc.problems:
        res["inconclusive"] = "; ".join(sc.problems[:3])
        return res
    rx = sc.received()
    # the departing client's last raw frame may itself be a data frame that survivors legitimately receive
    for mech, detail in stream_checks(sc, rx, allow_alien=True):
        V.append({"mech": "c05:" + mech, "detail": detail})
    deps = [("D", 20, "dd", c["d1"])] + ([("E", 21, "ee", c["d2"])] if c.get("d2") else [])
    closed = [W.unpack_client(f.payload) for f in rx["M"]["frames"] if f.msg_type == W.MT_CLIENT_CLOSED and len(f.payload) == 80]
    infos = [W.unpack_client(f.payload) for f in rx["M"]["frames"] if f.msg_type == W.MT_CLIENT_INFO and len(f.payload) == 80]
    if c.get("tm"):
        # the process-id table of the last statistics report lists connected modules only
        tms = [f for f in rx["M"]["frames"] if f.msg_type == W.MT_TIMING and f.src_mod == 0 and len(f.payload) == W.TIMING_SIZE]
        if len(tms) == 3:
            import struct as _st
            live = {}
            for m in sc.model.mods.values():
                if m.connected and 0 < m.mod_id < 200 and not m.fin:
                    live.setdefault(m.mod_id, set()).add(m.pid)
            # report 2: after the departure, before the ids are re-used; report 3: at the end
            gone = {idn for L, idn, name, d in [("D", 20, "dd", c["d1"])] + ([("E", 21, "ee", c["d2"])] if c.get("d2") else [])}
            for which, tm_, absent in (("before the ids were re-used", tms[1], gone), ("at the end", tms[2], set(range(1, 200)) - set(live))):
                pids = _st.unpack_from("<200i", tm_.payload, 20000)
                C["timing_pid_tables_checked"] = C.get("timing_pid_tables_checked", 0) + 1
                bad = [(i, pids[i]) for i in sorted(absent) if 0 < i < 200 and pids[i]]
                if bad:
                    V.append({"mech": "pid_of_departed_module_still_reported",
                              "detail": f"TIMING_MESSAGE after the departure ({which}): ModulePID{bad[:4]} although no connected module holds that id"})
                    break
        else:
            res["inconclusive"] = f"expected three TIMING reports at the monitor, saw {len(tms)}"
        acs = [f for f in rx["M"]["frames"] if f.msg_type == W.MT_ACTIVE_CLIENTS and f.src_mod == 0 and len(f.payload) == W.S_ACTIVE.size]
        if acs:
            u = W.S_ACTIVE.unpack(acs[-1].payload)
            n = u[1]
            listed = sorted(x for x in u[4:4 + 256][:max(0, n) + 1] if x)
            want = sorted(m.mod_id for m in sc.model.mods.values() if m.connected and m.mod_id and not m.fin)
            C["active_client_lists_checked"] = C.get("active_client_lists_checked", 0) + 1
            if listed != want:
                V.append({"mech": "active_clients_lists_departed_or_misses_live",
                          "detail": f"last ACTIVE_CLIENTS lists module ids {listed} (num_clients {n}); connected modules hold {want}"})
        else:
            res["inconclusive"] = "no ACTIVE_CLIENTS report reached the monitor"
    for L, idn, name, d in deps:
        cs = sc.cl[L]
        C["departures"] = C.get("departures", 0) + 1
        if d.get("nw"):
            C["departures_while_not_writable"] = C.get("departures_while_not_writable", 0) + 1
        mine = [x for x in closed if x["port"] == cs.addr[1]]
        if d["stage"] != "accepted" or d["way"].startswith("refused"):
            res["nontrivial"] = True
        if len(mine) != 1:
            V.append({"mech": "client_closed_missing" if not mine else "client_closed_duplicate",
                      "detail": f"{L} ({d}) left; monitor saw {len(mine)} CLIENT_CLOSED for its port {cs.addr[1]} "
                                f"(all: {[(x['mod_id'], x['port']) for x in closed]})"})
        else:
            C["client_closed_matched"] = C.get("client_closed_matched", 0) + 1
            x = mine[0]
            info = [y for y in infos if y["port"] == cs.addr[1]]
            if info:
                y = info[-1]
                if (x["uid"], x["mod_id"], x["name"], x["is_logger"], x["addr"]) != (y["uid"], y["mod_id"], y["name"], y["is_logger"], y["addr"]):
                    V.append({"mech": "client_closed_wrong_description", "detail": f"{L}: CLIENT_INFO {y} vs CLIENT_CLOSED {x}"})
            if cs.mod_id is not None and x["mod_id"] != cs.mod_id:
                V.append({"mech": "client_closed_wrong_description", "detail": f"{L}: mod_id {x['mod_id']} != {cs.mod_id}"})
        # reconnect
        if "R" + L in sc.cl:
            C["reconnects_checked"] = C.get("reconnects_checked", 0) + 1
            if sc.cl["R" + L].hello != "ack":
                V.append({"mech": "reconnect_refused", "detail": f"immediate reconnect with id {idn} name {name!r} after {L} left "
                                                                 f"({d}) -> {sc.cl['R' + L].hello}"})
        res["sets"].setdefault("departure", []).append([d["stage"], d["way"], d.get("off") if "partial" in d["way"] else None,
                                                        d.get("frame") if "partial" in d["way"] else None])
    # incumbent undisturbed + probes + in-flight (model comparison as in C01)
    got = {L: {} for L in rx}
    for L, r in rx.items():
        for f in r["frames"]:
            if f.pid in sc.pubs:
                got[L].setdefault(f.pid, []).append(f)
    for pid, p in sc.pubs.items():
        if p["must"] is None:
            if p["by"] == "P":
                V.append({"mech": "probe_not_serviced", "detail": f"publication {pid} by P never serviced"})
            continue
        nwr = set(sc.rounds[p["round"]].get("nw", ())) if p.get("round") is not None and p["round"] < len(sc.rounds) else set()
        for L in sc.cl:
            n = len(got[L].get(pid, []))
            if L in nwr:
                continue    # reported not writable in that round: what it gets or misses is C14's business
            if L in p["must"]:
                C["probe_deliveries_checked"] = C.get("probe_deliveries_checked", 0) + 1
                if n != 1:
                    V.append({"mech": "survivor_missed" if n == 0 else "survivor_duplicate",
                              "detail": f"pub {pid} type {p['t']} dest {p['dm']} round {p['round']}: {L} got {n} copies (must={p['must']})"})
            elif L not in p["may"] and n:
                V.append({"mech": "unexpected_delivery", "detail": f"pub {pid} reached {L} (must={p['must']})"})
    # the surviving logger's copies of the acknowledgements owed to the survivors (P, M, S, the newcomer and the reconnected ones)
    from collections import Counter as _Cn
    for G, gid in (("G", 13), ("G2", 14), ("G3", 14)):
        if G not in rx:
            continue
        owed, g_round = _Cn(), None
        gone = {sc.cl[L].mod_id for L in ("D", "E") if L in sc.cl}     # (ids that are used again by the reconnecting clients: left out)
        for rec in sc.rounds:
            for L, d, out in rec["frames"]:
                if L == G and d["kind"].startswith("hello") and out == "ack" and g_round is None:
                    g_round = rec["n"]
        for rec in sc.rounds:
            for L, d, out in rec["frames"]:
                if L in ("D", "E", "G", "G2", "G3") or sc.cl[L].mod_id is None:
                    continue
                if d["kind"] in ("sub", "unsub", "pause", "resume") or (d["kind"].startswith("hello") and out == "ack"):
                    # (what was acknowledged up to the round of the logger's own handshake may or may not have found it registered)
                    if g_round is not None and rec["n"] > g_round and sc.cl[L].mod_id not in gone:
                        owed[sc.cl[L].mod_id] += 1
        seen = _Cn(f.dest_mod for f in rx[G]["frames"] if f.msg_type == W.MT_ACK and f.dest_mod != gid and f.dest_mod not in gone)
        C["ack_copies_at_surviving_logger_checked"] = C.get("ack_copies_at_surviving_logger_checked", 0) + sum(owed.values())
        if True:
            if owed - seen:
                V.append({"mech": "surviving_logger_missed_ack_copy",
                          "detail": f"logger {G} ({gid}) is owed copies of the acknowledgements addressed to {dict(owed)}; it received copies addressed to {dict(seen)}"})
    # a departing client whose last complete control frame is answered into a reset connection: the loggers are owed the copy
    # of that acknowledgement like of any other (counted among what the first surviving logger had received when the departure
    # was complete, i.e. before the id is used again)
    for L, idn, name, d in deps:
        cs = sc.cl[L]
        if d["way"] == "frame_rst" and d.get("frame", "sub") in ("sub", "resume", "unsub", "pause") and cs.mod_id is not None and not d.get("nw") \
                and d["stage"] != "logger" and "G" in rx and c.get("_marks"):     # (a departing logger is also owed copies itself: left to C19)
            g_round = next((rec["n"] for rec in sc.rounds for l2, d2, o2 in rec["frames"] if l2 == "G" and d2["kind"].startswith("hello") and o2 == "ack"), None)
            if g_round is None:
                continue
            # (whether the manager got to read that last frame before the reset is decided by the failure notice about its
            # acknowledgement: an ACK that could not be written to the requester is reported like any undeliverable message)
            failed_acks = sum(1 for f in rx["M"]["frames"] if f.msg_type == W.MT_FAILED_MESSAGE and len(f.payload) == 64
                              and (lambda n: n["dest_mod_id"] == cs.mod_id and n["h_type"] == W.MT_ACK and n["h_dest_mod"] == cs.mod_id)(W.unpack_failed(f.payload)))
            owed = failed_acks + sum(1 for rec in sc.rounds if rec["n"] > g_round for l2, d2, o2 in rec["frames"]
                                     if l2 == L and (d2["kind"] in ("sub", "unsub", "pause", "resume") or (d2["kind"].startswith("hello") and o2 == "ack")))
            if failed_acks:
                C["acks_into_a_reset_connection"] = C.get("acks_into_a_reset_connection", 0) + failed_acks
            seen = sum(1 for f in rx["G"]["frames"][:c["_marks"].get("G", 0)] if f.msg_type == W.MT_ACK and f.dest_mod == cs.mod_id)
            C["ack_copies_for_departing_requester_checked"] = C.get("ack_copies_for_departing_requester_checked", 0) + 1
            if seen < owed:
                V.append({"mech": "logger_missed_copy_of_ack_to_departing_requester",
                          "detail": f"{L} (mod {cs.mod_id}, {d}) was owed {owed} acknowledgements ({failed_acks} of them could not be written to it any more and were reported as such); "
                                    f"logger G holds {seen} copies addressed to it at the time the departure was complete"})
    # no failure notice may be produced by anything after the departure round
    if n_before is not None:
        later = rx["M"]["frames"][n_before:]
        for f in later:
            if f.msg_type == W.MT_FAILED_MESSAGE and len(f.payload) == 64:
                n = W.unpack_failed(f.payload)
                V.append({"mech": "failed_message_after_departure",
                          "detail": f"FAILED_MESSAGE naming module {n['dest_mod_id']} for a type-{n['h_type']} message after the departure was complete"})
                break
    res["sets"]["round_order"] = [[len(r["order"]), "".join(r["order"])] for r in sc.rounds if len(r["order"]) >= 2]
    if c.get("n", 0) % 67 == 0:
        res["sample"] = {"case": {k: c[k] for k in c if k != "n"},
                         "client_closed_seen": [(x["mod_id"], x["port"], x["name"]) for x in closed]}
    return res


def crash_kind(tb):
    if not tb:
        return "hung"
    last = tb.strip().splitlines()[-1]
    return last.split(":")[0].strip()[:40]
