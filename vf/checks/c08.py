"""C08 — client read path is faithful, filtered and self-resynchronising.

A scripted peer (listening socket that answers the handshake with one ACK, then writes an exact byte script
and closes with FIN or RST at a prescribed byte offset) feeds a real pyrtma.Client. Monitor: the sequence of
return values / exceptions of successive Client.read_message calls, compared with a reference decoder over
the script (backtracking only over the don't-care zones), and Client.connected after the peer closed.
"""
from __future__ import annotations

import fcntl
import random
import select
import socket
import struct
import termios
import threading
import time
import warnings

from vf.rig import wire as W
from vf.driver import sig_of

ID = "C08"
LEVEL = "fault_enumeration"
RULE = ("cases = scripts of 1-8 frames over kinds {good+subscribed, good+unsubscribed, unknown type, payload larger / smaller "
        "than the local definition, wrong version with and without sync_check, version 0, zero-length signal, ACK with and "
        "without ack=True} covering all ordered adjacent pairs, subscription changes (unsubscribe / pause / subscribe-all) "
        "between reads with frames already queued, and the peer closing by FIN and by RST after every byte offset of a frame, "
        "with and without unread client->peer data. Non-trivial = at least one frame had to be returned or had to raise; "
        "distinct = distinct script descriptor")
ASSUMPTIONS = ["recv_time is stamped by the client and excluded from the comparison",
               "an undecodable frame of an unsubscribed type may raise or be skipped; a frame truncated by the close may "
               "surface as its documented error first if the following call reports ConnectionLost; after a reset, frames "
               "still queued may or may not be delivered before ConnectionLost",
               "the local definitions are the shipped core definitions (types 62, 32, 26, 63; 9000 has no definition)"]
REQUIRE = {"kept_messages_rechecked": 400, "calls_with_own_ack_option": 100, "frames_delivered_in_two_pieces": 40, "frames_scripted": 1500, "returned_messages_compared": 400, "documented_errors_checked": 200, "closes_checked": 150}
CASE_TIMEOUT = 60

KINDS = ["good", "good2", "unsub", "unknown", "unknown_unsub", "bigger", "smaller", "badver", "ver0", "signal", "ack", "big_badver", "zero_badver", "unsub_big_badver"]
T_A, T_B, T_SIG, T_UNSUB, T_UNK, T_UNK2 = 62, 32, 63, 26, 9000, 9001


def defs():
    import pyrtma.core_defs as cd
    from pyrtma.message import get_msg_cls
    out = {}
    for t in (T_A, T_B, T_SIG, T_UNSUB, W.MT_ACK):
        cls = get_msg_cls(t)
        out[t] = (cls.type_size, cls.type_hash)
    return out


def mk_frame(kind, n, D, tc):
    """returns dict(type, declared, payload, version, bytes)"""
    t = {"good": T_A, "good2": T_B, "unsub": T_UNSUB, "unknown": T_UNK, "unknown_unsub": T_UNK2, "bigger": T_A, "smaller": T_B,
         "badver": T_A, "ver0": T_B, "signal": T_SIG, "ack": W.MT_ACK, "big_badver": T_A, "zero_badver": T_B, "unsub_big_badver": T_UNSUB}[kind]
    size, h = D.get(t, (12, 0))
    ln = size
    if kind in ("bigger", "big_badver", "unsub_big_badver"):
        ln = size + 8 + (8 if kind != "bigger" else 0)
    elif kind == "zero_badver":
        ln = 0
    elif kind == "smaller":
        ln = size - 4
    elif kind in ("unknown", "unknown_unsub"):
        ln = 12
    payload = bytes(((n * 37 + i * 11) & 0xFF) or 1 for i in range(ln))
    ver = h
    if kind in ("badver", "big_badver", "zero_badver", "unsub_big_badver"):
        ver = (h ^ 0x5A5A5A5A) or 1
    elif kind in ("ver0", "ack", "signal", "unknown", "unknown_unsub"):
        ver = 0 if kind != "signal" else h
    hdr = W.pack_header(t, msg_count=n + 1, send_time=1000.5 + n, recv_time=0.0, src_host=[1, 0, -1, 32767][n % 4], src_mod=[7, 0, 200, -5][n % 4],
                        dest_host=[0, 5, -1][n % 3], dest_mod=[0, 33, 32767, -32768][(n // 2) % 4],
                        nbytes=ln, remaining=[n, -1, 2 ** 31 - 1][n % 3], is_dynamic=[0, 1, -7][n % 3], reserved=ver, timecode=tc, tc=(n, n + 1))
    return {"kind": kind, "type": t, "declared": ln, "version": ver, "hex": (hdr + payload).hex(), "hlen": len(hdr)}


def gen_cases(tier, seed):
    rng = random.Random(f"c08-{seed}")
    cases = []

    def add(kinds, **kw):
        c = {"kinds": kinds, "sync": kw.pop("sync", False), "ack": kw.pop("ack", False), "tc": kw.pop("tc", False)}
        c.update(kw)
        cases.append(c)

    # all ordered adjacent pairs, framed by good frames
    for a in KINDS:
        for b in KINDS:
            for sync in (False, True):
                add(["good", a, b, "good2"], sync=sync, ack=(len(a) + len(b)) % 2 == 0, close={"how": "fin", "at": None},
                    tmode=["pos", "tiny", "block"][(len(a) * 3 + len(b)) % 3])
    # random scripts
    n = 250 if tier == "quick" else 60000
    for i in range(n):
        k = rng.randint(1, 8)
        kinds = [rng.choice(KINDS) for _ in range(k)]
        changes = []
        if rng.random() < 0.5:
            for _ in range(rng.randint(1, 2)):
                changes.append([rng.randint(0, k), rng.choice(["unsub_a", "pause_a", "sub_all", "unsub_b", "sub_unsub", "resume_a", "unsub_all"])])
        close = rng.choice([None, {"how": "fin", "at": None}, {"how": "rst", "at": None}])
        add(kinds, sync=rng.random() < 0.5, ack=rng.random() < 0.3, tc=(i % 5 == 4), changes=sorted(changes), close=close,
            drain_peer=rng.random() < 0.5, sub_all=rng.random() < 0.1, tmode=rng.choice(["pos", "pos", "block", "none", "long", "tiny", "tiny"]))
    # the ack option differs from call to call (ACKNOWLEDGE frames are in the script): it is that call's business only
    for i in range(60 if tier == "quick" else 4000):
        k = rng.randint(3, 8)
        kinds = [rng.choice(["ack", "ack", "good", "good2", "signal", "ver0"]) for _ in range(k)]
        add(kinds, sync=rng.random() < 0.5, ack=False, tc=(i % 5 == 4), close=rng.choice([None, {"how": "fin", "at": None}]), drain_peer=True,
            ack_calls=[rng.random() < 0.4 for _ in range(rng.randint(2, 5))], tmode="pos")
    # one frame of the script arrives in two pieces (split inside its header or inside its payload)
    for i in range(60 if tier == "quick" else 6000):
        k = rng.randint(1, 5)
        kinds = [rng.choice(KINDS) for _ in range(k)]
        close = rng.choice([None, None, {"how": "fin", "at": None}])
        add(kinds, sync=rng.random() < 0.5, ack=rng.random() < 0.3, tc=(i % 5 == 4), close=close, drain_peer=True,
            split=[rng.randrange(k), rng.choice([0.02, 0.2, 0.3, 0.5, 0.8, 0.99])], tmode=rng.choice(["long", "long", "pos", "block", "none"]))
    # the peer closing after every byte offset of a frame, for every frame kind
    step = 1 if tier == "thorough" else 4
    for kind in KINDS:
        for how in ("fin", "rst"):
            for drain in (True, False):
                ln = 48 + 100
                for off in range(0, ln, step):
                    add(["good", kind, "good"], close={"how": how, "at": ["frame", 1, off]}, drain_peer=drain,
                        sync=(off % 2 == 0), ack=(off % 3 == 0))
    return cases


# ------------------------------------------------------------------------------------------------ scripted peer
class Peer:
    def __init__(self, tc):
        self.tc = tc
        self.ls = socket.socket()
        self.ls.setsockopt(socket.SOL_SOCKET, socket.SO_REUSEADDR, 1)
        self.ls.bind(("127.0.0.1", 0))
        self.ls.listen(4)
        self.port = self.ls.getsockname()[1]
        self.conn = None
        self.hs = threading.Thread(target=self._handshake, daemon=True)
        self.inbuf = bytearray()
        self.err = None
        self.hs.start()

    def _recv_exact(self, n):
        b = bytearray()
        while len(b) < n:
            d = self.conn.recv(n - len(b))
            if not d:
                raise EOFError
            b += d
        return bytes(b)

    def _handshake(self):
        try:
            self.conn, _ = self.ls.accept()
            self.conn.setsockopt(socket.IPPROTO_TCP, socket.TCP_NODELAY, 1)
            H = 56 if self.tc else 48
            self._recv_exact(H + 44)      # CONNECT_V2
            self._recv_exact(H + 4)       # CONNECT
            self.conn.sendall(W.pack_header(W.MT_ACK, msg_count=1, dest_mod=123, timecode=self.tc))
            self._recv_exact(H + 4)       # MODULE_READY
        except Exception as e:
            self.err = repr(e)

    def drain_incoming(self):
        try:
            while True:
                r, _, _ = select.select([self.conn], [], [], 0)
                if not r:
                    return
                d = self.conn.recv(65536)
                if not d:
                    return
        except OSError:
            return

    def send(self, data):
        self.conn.sendall(data)
        buf = bytearray(4)
        end = time.time() + 3
        while time.time() < end:
            fcntl.ioctl(self.conn.fileno(), termios.TIOCOUTQ, buf)
            if struct.unpack("i", buf)[0] == 0:
                return True
            time.sleep(0.0005)
        return False

    def close(self, how):
        if self.conn is None:
            return
        try:
            if how == "rst":
                self.conn.setsockopt(socket.SOL_SOCKET, socket.SO_LINGER, struct.pack("ii", 1, 0))
            self.conn.close()
        except OSError:
            pass
        self.conn = None

    def shutdown(self):
        self.close("fin")
        self.ls.close()


# ------------------------------------------------------------------------------------------------ reference decoder
def allowed(fr, st, D, flags):
    """set of allowed outcomes for a complete frame under client state st: 'msg', 'skip', 'exc:<Class>'"""
    t = fr["type"]
    subscribed = st["all"] or t in st["subs"]
    d = D.get(t)
    err = None
    if d is None:
        err = "exc:UnknownMessageType"
    elif d[0] != fr["declared"]:
        err = "exc:InvalidMessageDefinition"
    elif flags["sync"] and fr["version"] != 0 and fr["version"] != d[1]:
        err = "exc:InvalidMessageDefinition"
    if err:
        return {err} if subscribed else {err, "skip"}
    if subscribed:
        return {"msg"}
    if t == W.MT_ACK and flags["ack"]:
        return {"msg"}
    return {"skip"}


def fields_of(frame_bytes, tc):
    f = W.parse_frames(frame_bytes, tc)[0][0]
    return f


def match(frames, outcomes, D, flags, tc, cut):
    """frames: complete scripted frames that were fully sent (in order); cut: None | dict(partial=bytes_sent_of_next_frame,
    how=fin|rst). outcomes: list of dict(kind=msg|exc|none|lost, state, ...). Returns (ok, why)."""
    why = ["no consistent reading of the script"]

    def rec(i, k):
        if k == len(outcomes):
            if i == len(frames) or (cut and cut["how"] == "rst"):
                return True
            why[0] = f"frames {i}.. of the script were never accounted for by any read_message call"
            return False
        o = outcomes[k]
        st = o["state"]
        fl = dict(flags, ack=o.get("ack", flags["ack"]))     # (the ack option is a per-call argument)
        if o["kind"] == "none":
            # everything that was queued for this call must have been skippable
            j = i
            while j < len(frames) and j < o["avail"]:
                if "skip" not in allowed(frames[j], st, D, fl):
                    why[0] = f"read_message returned None although frame #{j} ({frames[j]['kind']}) was queued and had to be " \
                             f"{sorted(allowed(frames[j], st, D, fl))}"
                    return False
                j += 1
            return rec(j, k + 1)
        if o["kind"] in ("lost", "notconnected"):
            # (notconnected: the loss was already reported to the application by a failed send)
            # remaining complete frames: under FIN all must have been skippable; under RST anything may be lost
            if not cut:
                why[0] = "ConnectionLost although the peer never closed"
                return False
            if cut["how"] == "fin" and o["kind"] == "lost":
                for j in range(i, len(frames)):
                    if "skip" not in allowed(frames[j], st, D, fl):
                        why[0] = f"ConnectionLost reported before queued frame #{j} ({frames[j]['kind']}) was delivered (orderly close)"
                        return False
            return k + 1 == len(outcomes) or all(x["kind"] in ("lost", "notconnected") for x in outcomes[k + 1:])
        for j in range(i, len(frames) + 1):
            if j == len(frames):
                # the truncated frame may surface as its documented error (header complete, payload cut)
                if cut and cut.get("partial_hdr_complete") and o["kind"] == "exc" and k + 1 < len(outcomes) and outcomes[k + 1]["kind"] == "lost":
                    pf = cut["partial_frame"]
                    if "exc:" + o["cls"] in (allowed(pf, st, D, fl) | {"exc:" + c for c in doc_error(pf, D, fl)}):
                        if rec(j, k + 1):
                            return True
                break
            al = allowed(frames[j], st, D, fl)
            if o["kind"] == "msg" and "msg" in al and same(frames[j], o, tc):
                if rec(j + 1, k + 1):
                    return True
            if o["kind"] == "exc" and ("exc:" + o["cls"]) in al:
                if rec(j + 1, k + 1):
                    return True
            if "skip" not in al:
                if o["kind"] == "msg":
                    why[0] = f"call #{k} returned a message of type {o['type']} (send_time {o['send_time']}) but the next frame that could not " \
                             f"be skipped was #{j} ({frames[j]['kind']}, type {frames[j]['type']}), allowed {sorted(al)}"
                else:
                    why[0] = f"call #{k} raised {o['cls']} but the next frame that could not be skipped was #{j} ({frames[j]['kind']}), allowed {sorted(al)}"
                break
        return False

    ok = rec(0, 0)
    return ok, why[0]


def doc_error(pf, D, flags):
    d = D.get(pf["type"])
    if d is None:
        return ["UnknownMessageType"]
    if d[0] != pf["declared"]:
        return ["InvalidMessageDefinition"]
    if flags["sync"] and pf["version"] not in (0, d[1]):
        return ["InvalidMessageDefinition"]
    return []


def same(fr, o, tc):
    f = fields_of(bytes.fromhex(fr["hex"]), tc)
    want = (f.msg_type, f.msg_count, f.send_time, f.src_host, f.src_mod, f.dest_host, f.dest_mod, f.nbytes, f.remaining,
            f.is_dynamic, f.reserved) + tuple(f.tc)
    return want == tuple(o["hdr"]) and f.payload == bytes.fromhex(o["payload"])


# ------------------------------------------------------------------------------------------------ run
class _Outcomes(list):
    ack = False

    def append(self, o):
        o.setdefault("ack", self.ack)
        super().append(o)


def run_case(case, tier):
    from pyrtma.client import Client
    from pyrtma.exceptions import (ConnectionLost, NotConnectedError, UnknownMessageType, InvalidMessageDefinition)
    warnings.simplefilter("ignore")
    tc = bool(case.get("tc"))
    D = defs()
    frames = [mk_frame(k, n, D, tc) for n, k in enumerate(case["kinds"])]
    res = {"violations": [], "counters": {"frames_scripted": len(frames)}, "sets": {}, "sig": sig_of({k: case[k] for k in case if k != "n"}),
           "nontrivial": False}
    V, C = res["violations"], res["counters"]
    peer = Peer(tc)
    c = Client(module_id=0, timecode=tc)
    late = None
    try:
        c.connect(f"127.0.0.1:{peer.port}")
        peer.hs.join(5)
        if peer.err or peer.conn is None:
            res["inconclusive"] = f"scripted peer handshake failed: {peer.err}"
            return res
        st = {"all": bool(case.get("sub_all")), "subs": set()}
        if st["all"]:
            c.subscribe([0x7FFFFFFF])
        else:
            c.subscribe([T_A, T_B, T_SIG, T_UNK])
            st["subs"] = {T_A, T_B, T_SIG, T_UNK}
        if case.get("drain_peer", True):
            time.sleep(0.002)
            peer.drain_incoming()
        stream = b"".join(bytes.fromhex(f["hex"]) for f in frames)
        close = case.get("close")
        cut = None
        sent = stream
        nfull = len(frames)
        if close and close.get("at"):
            _, idx, off = close["at"]
            start = sum(len(f["hex"]) // 2 for f in frames[:idx])
            flen = len(frames[idx]["hex"]) // 2
            off = min(off, flen - 1)
            sent = stream[:start + off]
            nfull = idx
            cut = {"how": close["how"], "partial": off, "partial_hdr_complete": off >= frames[idx]["hlen"], "partial_frame": frames[idx]}
        elif close:
            cut = {"how": close["how"], "partial": 0}
        if case.get("split") and not (close and close.get("at")):
            # the bytes of one frame reach the client in two pieces with a pause in between (the peer closes nothing
            # meanwhile): a read that is under way simply goes on when the rest arrives
            idx, frac = case["split"]
            idx = min(idx, len(frames) - 1)
            start = sum(len(f["hex"]) // 2 for f in frames[:idx])
            flen = len(frames[idx]["hex"]) // 2
            pos = start + max(1, min(flen - 1, int(frac * flen)))
            first, rest = sent[:pos], sent[pos:]
            if not peer.send(first):
                res["inconclusive"] = "peer could not flush its script"
                return res
            C["frames_delivered_in_two_pieces"] = 1

            def _late():
                time.sleep(0.15)
                try:
                    peer.conn.sendall(rest)
                    if close:
                        peer.close(close["how"])
                except OSError:
                    pass

            late = threading.Thread(target=_late, daemon=True)
            late.start()
        else:
            if not peer.send(sent):
                res["inconclusive"] = "peer could not flush its script"
                return res
            if close:
                peer.close(close["how"])
        if close:
            C["closes_checked"] = 1
        flags = {"sync": bool(case["sync"]), "ack": bool(case["ack"])}
        changes = list(case.get("changes") or [])
        outcomes = _Outcomes()
        kept = []      # every returned Message is kept: what it holds must not change when later frames are read
        returned = 0
        for call in range(len(frames) + 6):
            while changes and changes[0][0] <= returned:
                _, ch = changes.pop(0)
                try:
                    apply_change(c, st, ch)
                except (ConnectionLost, NotConnectedError):
                    pass
                except Exception:
                    pass
            snap = {"all": st["all"], "subs": set(st["subs"])}
            try:
                # blocking variants are only used when the peer is going to close (so a blocking read always ends)
                tmo = 0.05
                if close and case.get("tmode") == "block":
                    tmo = -1
                elif close and case.get("tmode") == "none":
                    tmo = None
                elif case.get("tmode") == "tiny":
                    tmo = 1e-6      # budget already spent when a queued frame is examined; data is queued, so select still fires
                elif case.get("tmode") == "long":
                    tmo = 0.5 if call < len(frames) else 0.05
                ack_now = flags["ack"]
                if case.get("ack_calls"):
                    ack_now = bool(case["ack_calls"][call % len(case["ack_calls"])])
                outcomes.ack = ack_now
                if case.get("ack_calls"):
                    C["calls_with_own_ack_option"] = C.get("calls_with_own_ack_option", 0) + 1
                m = c.read_message(timeout=tmo, ack=ack_now, sync_check=flags["sync"])
            except ConnectionLost:
                outcomes.append({"kind": "lost", "state": snap, "connected_after": c.connected})
                break
            except NotConnectedError:
                outcomes.append({"kind": "notconnected", "state": snap})
                break
            except (UnknownMessageType, InvalidMessageDefinition) as e:
                outcomes.append({"kind": "exc", "cls": type(e).__name__, "state": snap})
                returned += 1
                continue
            except Exception as e:
                V.append({"mech": f"undocumented_exception:{type(e).__name__}", "detail": f"read_message raised {type(e).__name__}: {e} on script {case['kinds']} close={close}"})
                outcomes.append({"kind": "lost", "state": snap, "connected_after": False, "undocumented": True})
                break
            if m is None:
                outcomes.append({"kind": "none", "state": snap, "avail": nfull})
                if not close:
                    break
                continue
            h = m.header
            hdr = (h.msg_type, h.msg_count, h.send_time, h.src_host_id, h.src_mod_id, h.dest_host_id, h.dest_mod_id, h.num_data_bytes,
                   h.remaining_bytes, h.is_dynamic, h.reserved) + ((h.utc_seconds, h.utc_fraction) if tc else ())
            outcomes.append({"kind": "msg", "type": h.msg_type, "send_time": h.send_time, "hdr": list(hdr), "payload": bytes(m.data).hex(),
                             "state": snap})
            kept.append((m, bytes(m.data), bytes(m.header)))
            returned += 1
            # the filter itself: never a type that is not subscribed right now
            if not snap["all"] and h.msg_type not in snap["subs"] and not (outcomes.ack and h.msg_type == W.MT_ACK):
                V.append({"mech": "returned_unsubscribed_type", "detail": f"read_message returned type {h.msg_type} while subscribed to {sorted(snap['subs'])}"})
        ok, why = match(frames[:nfull], outcomes, D, flags, tc, cut)
        nmust = sum(1 for f in frames[:nfull] if "skip" not in allowed(f, {"all": st["all"], "subs": st["subs"]}, D, flags))
        res["nontrivial"] = any(o["kind"] in ("msg", "exc") for o in outcomes)
        C["returned_messages_compared"] = sum(1 for o in outcomes if o["kind"] == "msg")
        C["documented_errors_checked"] = sum(1 for o in outcomes if o["kind"] == "exc")
        if not ok:
            V.append({"mech": classify(outcomes, why), "detail": f"script {case['kinds']} sync={flags['sync']} ack={flags['ack']} close={close} "
                                                              f"changes={case.get('changes')}: {why}; outcomes={[brief(o) for o in outcomes]}"})
        if close:
            lost = [o for o in outcomes if o["kind"] == "lost"]
            if not lost and not any(o["kind"] == "notconnected" for o in outcomes):
                V.append({"mech": "connection_loss_not_reported", "detail": f"peer closed ({close}) but no read_message call raised ConnectionLost: {[brief(o) for o in outcomes]}"})
            for o in lost:
                if o["connected_after"]:
                    V.append({"mech": f"connected_after_connection_lost:{close['how']}", "detail": f"ConnectionLost was raised (peer closed with {close['how']}, "
                                                                                                f"cut={None if not cut else cut['partial']}) but client.connected is still True"})
        if close and any(o["kind"] == "lost" for o in outcomes) and not c.connected and case.get("n", 0) % 2 == 0:
            # the same Client object connects again after the loss: it has subscribed to nothing on the new connection,
            # so frames of the types it used to subscribe to (queued at once by the new peer) must not be returned
            peer2 = Peer(tc)
            try:
                c.connect(f"127.0.0.1:{peer2.port}")
                peer2.hs.join(5)
                if not peer2.err and peer2.conn is not None:
                    again = [mk_frame(k, 50 + n, D, tc) for n, k in enumerate(["good", "good2", "signal", "good"])]
                    peer2.send(b"".join(bytes.fromhex(f["hex"]) for f in again))
                    C["reconnects_after_loss_checked"] = 1
                    for _ in range(6):
                        try:
                            m2 = c.read_message(timeout=0.05)
                        except (UnknownMessageType, InvalidMessageDefinition):
                            continue
                        except (ConnectionLost, NotConnectedError):
                            break
                        if m2 is None:
                            break
                        V.append({"mech": "returned_unsubscribed_type:after_reconnect",
                                  "detail": f"after ConnectionLost and connect() on the same Client, read_message returned type {m2.header.msg_type} "
                                            f"although nothing was subscribed on the new connection (before the loss: {'ALL' if st['all'] else sorted(st['subs'])})"})
                        break
            except Exception as e:
                V.append({"mech": f"reconnect_after_loss_failed:{type(e).__name__}", "detail": str(e)[:200]})
            finally:
                peer2.shutdown()
        for i, (km, kd, kh) in enumerate(kept):
            C["kept_messages_rechecked"] = C.get("kept_messages_rechecked", 0) + 1
            if bytes(km.data) != kd or bytes(km.header) != kh:
                V.append({"mech": "returned_message_changed_by_later_reads",
                          "detail": f"message #{i} (type {km.header.msg_type}) returned by read_message was intact then; after the following reads its "
                                    f"{'payload' if bytes(km.data) != kd else 'header'} differs ({len(kd)} bytes)"})
                break
        res["sets"]["script_kinds"] = [[k] for k in case["kinds"]]
        res["sets"]["adjacent_pairs"] = [[a, b] for a, b in zip(case["kinds"], case["kinds"][1:])]
        if close and close.get("at"):
            res["sets"]["cut_offsets"] = [[case["kinds"][close["at"][1]], close["how"], close["at"][2]]]
        if case.get("n", 0) % 301 == 0:
            res["sample"] = {"case": {k: case[k] for k in case if k != "n"}, "outcomes": [brief(o) for o in outcomes]}
        return res
    finally:
        if late is not None:
            late.join(3)
        try:
            c._sock.close()
            c._connected = False
            lg = c.logger.logger
            for h in list(lg.handlers):
                lg.removeHandler(h)
        except Exception:
            pass
        peer.shutdown()


def apply_change(c, st, ch):
    ALL = 0x7FFFFFFF
    if ch == "unsub_a":
        if not st["all"]:
            c.unsubscribe([T_A]); st["subs"].discard(T_A)
    elif ch == "pause_a":
        if not st["all"] and T_A in st["subs"]:
            c.pause_subscription([T_A]); st["subs"].discard(T_A)
    elif ch == "resume_a":
        if not st["all"]:
            c.resume_subscription([T_A]); st["subs"].add(T_A)
    elif ch == "unsub_b":
        if not st["all"]:
            c.unsubscribe([T_B]); st["subs"].discard(T_B)
    elif ch == "sub_unsub":
        if not st["all"]:
            c.subscribe([T_UNSUB]); st["subs"].add(T_UNSUB)
    elif ch == "sub_all":
        c.subscribe([ALL]); st["all"] = True; st["subs"] = set()
    elif ch == "unsub_all":
        c.unsubscribe([ALL]); st["all"] = False; st["subs"] = set()


def brief(o):
    if o["kind"] == "msg":
        return f"msg({o['type']}@{o['send_time']})"
    if o["kind"] == "exc":
        return f"exc({o['cls']})"
    return o["kind"]


def classify(outcomes, why):
    if "returned None although" in why:
        return "queued_frame_lost"
    if "ConnectionLost reported before" in why:
        return "frame_lost_before_connection_lost"
    if "never accounted" in why:
        return "frames_unaccounted"
    if "raised" in why:
        return "wrong_or_misplaced_error"
    if "returned a message" in why:
        return "wrong_or_corrupted_message"
    return "script_mismatch"
