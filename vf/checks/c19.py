"""C19 — control frames are acknowledged exactly once, in order, to their sender; never anything else.

Monitor: on every sender's connection the sub-sequence [ACK addressed to me | my self-addressed marker messages]
must equal the sequence the service-order replay predicts (markers pin the position of otherwise
indistinguishable ACKs); every logger connected at the time must carry a copy of each ACK, in order.
"""
from __future__ import annotations

import random

from vf.rig import wire as W
from vf.rig.manager_rig import ManagerRig
from vf.rig.scenario import Scenario, stream_checks
from vf.models.router import ALL
from vf.driver import sig_of

ID = "C19"
LEVEL = "exploration"
RULE = ("seeded sequences of control frames (subscribe/unsubscribe/pause/resume incl. repeats, no-ops, requests under "
        "sub-all), handshakes (CONNECT only / CONNECT_V2+CONNECT), refused connects, MODULE_READY, CLIENT_SET_NAME, "
        "DISCONNECT, data frames and self-addressed markers from 1-5 modules with 0-3 loggers, interleaved under "
        "prescribed service orders; non-trivial = >=1 ACK position pinned between two markers AND >=1 never-acked "
        "frame kind present; distinct = distinct step-list hash")
ASSUMPTIONS = ["a sender that is itself a logger may see 1 or 2 ACK frames per request (answer + logger copy)",
               "a refused connection may appear as EOF or reset",
               "a repeated handshake on an already accepted connection must not be acknowledged again (the current code ignores it)",
               "a not-writable report for a sender does not excuse its acknowledgement; its self-addressed markers of that round are dropped legitimately and ignored"]
REQUIRE = {"acks_expected": 300, "never_acked_frames": 100, "logger_copies_expected": 100,
           "acks_owed_to_not_writable_sender": 30, "loggers_died_silently": 20,
           "acks_owed_before_handshake": 100}
MARK = 7777
CASE_TIMEOUT = 120


def gen(rng: random.Random, tier):
    nm, nl = rng.randint(1, 5), rng.randint(0, 3)
    mods = [f"m{i}" for i in range(nm)]
    logs = [f"g{i}" for i in range(nl)]
    types = rng.sample([0, 1, 100, 1234, 5000, 9999], 3)
    steps = []
    ids = {}
    for i, L in enumerate(logs + mods):
        ids[L] = 10 + i if rng.random() < 0.7 else 0
        steps.append(["open", L])
        if rng.random() < 0.15:
            # control frames on a connection whose handshake has not been made yet (the manager serves any accepted
            # socket): each is owed its acknowledgement like any other, addressed to module 0
            for _ in range(rng.randint(1, 3)):
                steps.append([rng.choice(["sub", "sub", "unsub", "pause", "resume"]), L, rng.choice(types)])
                if rng.random() < 0.3:
                    steps.append(["round", {"seed": rng.getrandbits(30)}])
        steps.append(["hello", L, {"mod_id": ids[L], "logger": int(L in logs), "v2": rng.random() < 0.7, "v1_after": True}])
        if rng.random() < 0.5:
            steps.append(["round", {"seed": rng.getrandbits(30)}])
    steps.append(["drain"])
    for L in mods + logs:
        steps.append(["sub", L, MARK])
    steps.append(["drain"])
    live = list(mods + logs)
    extra = 0
    for _ in range(rng.randint(10, 40)):
        if not live:
            break
        L = rng.choice(live)
        r = rng.random()
        if r < 0.40:
            steps.append([rng.choice(["sub", "sub", "unsub", "pause", "resume"]), L,
                          rng.choice(types + [rng.choice(types)] + ([ALL] if rng.random() < 0.25 else []))])
        elif r < 0.60:
            steps.append(["pub", L, MARK, "@" + L, 0, 8])
        elif r < 0.72:
            # (some with a destination outside the valid range: refused, nothing else about the connection changes)
            steps.append(["pub", L, rng.choice(types), rng.choice([0, 0, 0, 201, -1, 32767]), rng.choice([0, 0, 0, 6, -1]), rng.choice([0, 8, 100])])
        elif r < 0.76:
            steps.append(["ready", L, rng.randint(1, 1 << 20)])
        elif r < 0.79:
            # a repeated handshake on a connection whose handshake was already accepted: must not be acknowledged again
            steps.append(["hello", L, {"mod_id": rng.choice([ids.get(L, 0), 0, 77]), "logger": int(L in logs), "v2": rng.random() < 0.7,
                                       "v1_after": rng.random() < 0.5}])
        elif r < 0.84:
            steps.append(["name", L, (b"nm" + L.encode()).hex()])
        elif r < 0.87 and len(live) > 1:
            steps.append(["disc", L])
            live.remove(L)
        elif r < 0.90 and L in logs and len(live) > 1:
            # a logger dies silently (reset); the manager finds out while fanning out the copies of somebody else's
            # acknowledgement - every other logger must still get its copy
            steps += [["drain"], ["close", L, "rst"], ["await_closed", L]]   # nothing of L is left queued
            live.remove(L)
            others = [x for x in live]
            M2 = rng.choice(others)
            steps.append([rng.choice(["sub", "unsub", "pause", "resume"]), M2, rng.choice(types)])
            steps.append(["round", {"only": others, "seed": rng.getrandbits(30)}])
        elif r < 0.93 and extra < 3:
            N = f"x{extra}"
            extra += 1
            # a connect that must be refused (duplicate explicit id) or a late joiner
            tgt = rng.choice(live)
            if rng.random() < 0.6 and ids.get(tgt):
                steps += [["open", N], ["hello", N, {"mod_id": ids[tgt], "v2": rng.random() < 0.5}]]
            else:
                steps += [["open", N], ["hello", N, {"mod_id": 0, "logger": int(rng.random() < 0.4)}], ["drain"],
                          ["sub", N, MARK], ["drain"]]
                live.append(N)
        if rng.random() < 0.4:
            opt = {"seed": rng.getrandbits(30)}
            if live and rng.random() < 0.35:
                # the round's writability snapshot reports some modules not writable: data for them is dropped, but an
                # acknowledgement is owed to its requester regardless
                opt["nw"] = rng.sample(live, rng.randint(1, len(live)))
            steps.append(["round", opt])
    steps.append(["drain"])
    return steps


def gen_cases(tier, seed):
    rng = random.Random(f"c19-{seed}")
    n = 2000 if tier == "quick" else 80000
    cases = []
    for i in range(n):
        s = rng.getrandbits(32)
        cases.append({"seed": s, "tc": i % 4 == 3, "steps": gen(random.Random(s), tier)})
    return cases


def run_case(case, tier):
    rig = ManagerRig(stepped=True, timecode=bool(case.get("tc")), loud=(2 if case.get("n", 0) % 8 == 6 else bool(case.get("n", 0) % 4 == 2)))   # every fourth case: the manager publishes its own log messages (half of them at DEBUG level)
    try:
        sc = Scenario(rig, case["seed"])
        sc.vary_source = True
        sc.run(case["steps"])
        return judge(sc, case)
    finally:
        rig.close()


def judge(sc: Scenario, case):
    res = {"violations": [], "counters": {}, "sets": {}, "sig": sig_of(case["steps"]), "nontrivial": False}
    V, C = res["violations"], res["counters"]
    if sc.crashed or sc.hung:
        V.append({"mech": "manager_died", "detail": (sc.rig.crash or "hung")[-800:]})
        return res
    if sc.problems:
        res["inconclusive"] = "; ".join(sc.problems[:3])
        return res
    rx = sc.received()
    # expected per-connection sequences from the service-order replay
    exp = {L: [] for L in sc.cl}          # 'A' or ('M', pubid)
    logexp = {L: [] for L in sc.cl}       # for loggers: dest ids of ACK copies expected, in order (None=own)
    loggers = []
    never = 0
    shaken = set()     # connections whose handshake has been accepted
    pre = {L: 0 for L in sc.cl}   # control frames sent before that: their acknowledgements are addressed to module 0
    ignored = set()    # markers published in a round whose snapshot reported the (non-logger) publisher not writable
    for rec in sc.rounds:
        for G in list(loggers):
            if sc.cl[G].closed_round is not None and sc.cl[G].closed_round <= rec["n"]:
                loggers.remove(G)     # closed by the harness before this round: nothing can be observed there any more
                C["loggers_died_silently"] = C.get("loggers_died_silently", 0) + 1
        for L, d, out in rec["frames"]:
            k = d["kind"]
            cs = sc.cl[L]
            acked = False
            if k in ("hello_v2", "hello_v1"):
                if out == "ack":
                    acked = True
                    shaken.add(L)
                    if d.get("logger"):
                        loggers.append(L)
                else:
                    never += 1
            elif k in ("sub", "unsub", "pause", "resume"):
                acked = True
            elif k == "pub":
                never += 1
                if d["t"] == MARK and L in rec.get("nw", ()) and L not in loggers:
                    ignored.add(d["id"])
                elif d["t"] == MARK and L in (out.get("must") or []):
                    exp[L].append(("M", d["id"]))
            elif k in ("disc", "eof"):
                never += 1
                if L in loggers:
                    loggers.remove(L)
            else:
                never += 1
            if acked:
                if L in rec.get("nw", ()):
                    C["acks_owed_to_not_writable_sender"] = C.get("acks_owed_to_not_writable_sender", 0) + 1
                exp[L].append("A")
                early = L not in shaken
                if early:
                    pre[L] += 1
                    C["acks_owed_before_handshake"] = C.get("acks_owed_before_handshake", 0) + 1
                for G in loggers:
                    if G != L:
                        logexp[G].append(0 if early else cs.mod_id)
    C["never_acked_frames"] = never
    pinned = False
    for L, cs in sc.cl.items():
        if cs.mod_id is None:
            # never connected: must not have received any ACK at all
            if any(f.msg_type == W.MT_ACK for f in rx[L]["frames"]):
                V.append({"mech": "ack_to_refused", "detail": f"{L}: refused/never-connected client received an ACKNOWLEDGE"})
            continue
        is_logger = bool(sc.model.get(cs.addr).logger) if sc.model.get(cs.addr) else any(
            d.get("logger") for r in sc.rounds for l2, d, o in r["frames"] if l2 == L and d["kind"].startswith("hello") and o == "ack")
        got = []
        others = []
        own_seen, pre_left = False, pre[L]
        for f in rx[L]["frames"]:
            if f.msg_type == W.MT_ACK:
                wellformed = f.nbytes == 0 and f.src_mod == 0
                if not wellformed:
                    V.append({"mech": "ack_malformed", "detail": f"{L}: {f.brief()}"})
                if f.dest_mod == cs.mod_id:
                    got.append("A")
                    own_seen = True
                elif f.dest_mod == 0 and pre_left and not own_seen:
                    got.append("A")       # answers to what it sent before its handshake
                    pre_left -= 1
                else:
                    others.append(f.dest_mod)
            elif f.pid in sc.pubs and f.msg_type == MARK \
                    and sc.pubs[f.pid]["by"] == L and f.pid not in ignored:
                got.append(("M", f.pid))
        C["acks_expected"] = C.get("acks_expected", 0) + exp[L].count("A")
        ok = match(exp[L], got, is_logger)
        if not ok:
            V.append({"mech": classify(exp[L], got, is_logger),
                      "detail": f"{L} (mod {cs.mod_id}, logger={is_logger}): expected {short(exp[L])} got {short(got)}"})
        # pinned: an A strictly between two markers
        e = exp[L]
        for i in range(1, len(e) - 1):
            if e[i] == "A" and e[i - 1] != "A" and e[i + 1] != "A":
                pinned = True
        if is_logger:
            C["logger_copies_expected"] = C.get("logger_copies_expected", 0) + len(logexp[L])
            if others != logexp[L]:
                V.append({"mech": "logger_copy_missing" if len(others) < len(logexp[L]) else "logger_copy_wrong",
                          "detail": f"logger {L}: expected ACK copies for modules {logexp[L][:40]} got {others[:40]}"})
        elif others:
            V.append({"mech": "ack_misdirected", "detail": f"{L} (mod {cs.mod_id}) received ACKs addressed to {others[:10]}"})
    res["nontrivial"] = pinned and never > 0
    res["sets"]["nloggers"] = [sum(1 for L in sc.cl if logexp[L] or L.startswith("g"))]
    if case.get("n", 0) % 89 == 0:
        L = max(exp, key=lambda k: len(exp[k]))
        res["sample"] = {"steps": case["steps"][:30], "connection": L, "expected": short(exp[L])}
    return res


def rle(seq):
    out = []
    for x in seq:
        if x == "A" and out and isinstance(out[-1], list):
            out[-1][0] += 1
        elif x == "A":
            out.append([1])
        else:
            out.append(x)
    return out


def match(exp, got, is_logger):
    """non-logger: exact. logger sender: each run of k expected ACKs may show as k..2k frames (answer + own copy)."""
    if not is_logger:
        return exp == got
    e, g = rle(exp), rle(got)
    if len(e) != len(g):
        return False
    for x, y in zip(e, g):
        if isinstance(x, list) != isinstance(y, list):
            return False
        if isinstance(x, list):
            if not (x[0] <= y[0] <= 2 * x[0]):
                return False
        elif x != y:
            return False
    return True


def classify(exp, got, is_logger):
    ea, ga = exp.count("A"), got.count("A")
    if ga < ea:
        return "ack_missing"
    if ga > ea * (2 if is_logger else 1):
        return "ack_extra"
    if [x for x in exp if x != "A"] != [x for x in got if x != "A"]:
        return "marker_mismatch"
    return "ack_out_of_order"


def short(seq):
    return "".join("A" if x == "A" else "m" for x in seq)[:120]
