"""C02 — client and manager always agree on the subscription set.

Real pyrtma.Client against the real manager (free-running). The verdict is model-free: after every API call
the set the client *reports* (subscribed_types / paused_subscribed_types) is compared with the set of probe
messages that actually *arrive* on the client's socket (raw bytes, read by the harness). A small client-state
model is used only to enumerate reachable states and applicable operations.
"""
from __future__ import annotations

import itertools
import random
import time
import warnings

from vf.rig import wire as W
from vf.rig.manager_rig import ManagerRig
from vf.rig.client_rig import ApiSession
from vf.driver import sig_of

ID = "C02"
LEVEL = "exploration"
ALL = 0x7FFFFFFF
U = [1001, 1002, 1003]
U4 = [1001, 1002, 1003, 1004]
FOREIGN = 1999
RULE = ("cases = (abstract client state: each of 3 types none/subscribed/paused, or subscribed-to-all: 28 states) x "
        "(operation: subscribe/unsubscribe/pause/resume with argument shapes single, several, duplicates, already in "
        "target state, ALL alone, ALL mixed, empty; unsubscribe_from_all / pause_all / resume_all; subscription_context and "
        "paused_subscription_context with lists overlapping the state in every position), plus seeded random walks of 50 "
        "operations; thorough adds a 4-type universe. Non-trivial = the operation changed the reported state or was refused; "
        "distinct = distinct (state, op, args)")
ASSUMPTIONS = ["delivered set is decided from raw bytes on client.sock after fences (ACKs) on both connections",
               "contexts are exited normally; a context entered with ALL in its list is outside the statement"]
REQUIRE = {"twin_probes_compared": 100, "cases_with_largest_message_id": 5, "probes_compared": 500, "context_restores_checked": 100, "suball_refusals_checked": 30, "reconnects": 20}
CASE_TIMEOUT = 200

SHAPES3 = [[0], [1], [2], [0, 1], [1, 2], [0, 2], [0, 1, 2], [0, 0], [1, 0, 1], [2, 1, 0], []]
ALLSHAPES = [["A"], ["A", 0], [1, "A"], ["A", "A"]]
CTX_LISTS = [[0], [1], [0, 1], [1, 0], [0, 1, 2], [2, 1, 0], [0, 0], [0, 0, 1], [1, 2], [0, 2], [2, 2, 2], [0, 1, 1, 2]]


def states(n=3):
    out = [{"all": True, "st": ["n"] * n}]
    for st in itertools.product("nsp", repeat=n):
        out.append({"all": False, "st": list(st)})
    return out


def gen_cases(tier, seed):
    rng = random.Random(f"c02-{seed}")
    ops = []
    for name in ("subscribe", "unsubscribe", "pause_subscription", "resume_subscription"):
        for sh in SHAPES3 + ALLSHAPES:
            ops.append([name, sh])
    for name in ("unsubscribe_from_all", "pause_all_subscriptions", "resume_all_subscriptions"):
        ops.append([name, None])
    for name in ("subscription_context", "paused_subscription_context"):
        for sh in CTX_LISTS:
            ops.append([name, sh])
    units = [{"state": s, "op": o} for s in states(3) for o in ops]
    rng.shuffle(units)
    cases = []
    per = 40
    for i in range(0, len(units), per):
        cases.append({"kind": "bfs", "units": units[i:i + per], "tc": (i // per) % 4 == 3, "n_types": 3})
    nwalk = 50 if tier == "quick" else 2000
    for i in range(nwalk):
        cases.append({"kind": "walk", "seed": rng.getrandbits(32), "len": 50, "tc": i % 4 == 3, "n_types": 3 if i % 2 else 4})
    if tier == "thorough":
        sh4 = [[0], [3], [0, 3], [1, 2, 3], [0, 1, 2, 3], [3, 3], [3, 2, 1, 0], []]
        ops4 = [[n, s] for n in ("subscribe", "unsubscribe", "pause_subscription", "resume_subscription") for s in sh4 + ALLSHAPES] + \
               [[n, None] for n in ("unsubscribe_from_all", "pause_all_subscriptions", "resume_all_subscriptions")] + \
               [[n, s] for n in ("subscription_context", "paused_subscription_context") for s in sh4 + [[2, 3], [3, 2, 2], [0, 1, 2, 3, 3]]]
        units = [{"state": s, "op": o} for s in states(4) for o in ops4]
        rng.shuffle(units)
        for i in range(0, len(units), per):
            cases.append({"kind": "bfs", "units": units[i:i + per], "tc": False, "n_types": 4})
    for i in range(6 if tier == "quick" else 150):
        cases.append({"kind": "twins", "seed": rng.getrandbits(32), "len": 25, "tc": i % 4 == 3, "n_types": 3})
    return cases


def resolve(sh, univ):
    return [ALL if x == "A" else univ[x] for x in sh]


class Obs:
    def __init__(self, res):
        self.res = res
        self.V = res["violations"]
        self.C = res["counters"]

    def bump(self, k, n=1):
        self.C[k] = self.C.get(k, 0) + n


def check_agreement(S: ApiSession, univ, o: Obs, ctx):
    """reported set == delivered set; paused not delivered. Returns (subscribed, paused) reported or None."""
    if not S.sync_client_controls():
        o.res.setdefault("problems", []).append(f"control frames of the client were not all acknowledged ({ctx})")
        return None
    sub, paused = S.c.subscribed_types, S.c.paused_subscribed_types
    got = S.probe(univ + [FOREIGN])
    if got is None:
        o.res.setdefault("problems", []).append(f"probe fence not acknowledged ({ctx})")
        return None
    o.bump("probes_compared", len(univ) + 1)
    if S.duplicates:
        o.V.append({"mech": "probe_delivered_twice", "detail": f"{ctx}: client reports subscribed={sorted(sub)}; probes of types {sorted(set(S.duplicates))} "
                                                               f"arrived more than once on its socket"})
    if ALL in sub:
        expect = set(univ + [FOREIGN])
    else:
        expect = {t for t in univ + [FOREIGN] if t in sub}
    if got != expect:
        missing, extra = sorted(expect - got), sorted(got - expect)
        mech = "reported_but_not_delivered" if missing else "delivered_but_not_reported"
        if ALL in sub and missing:
            mech = "reports_sub_all_but_not_delivered"
        o.V.append({"mech": mech, "detail": f"{ctx}: client reports subscribed={sorted(sub)} paused={sorted(paused)}; probes delivered for "
                                            f"{sorted(got)}; missing {missing} extra {extra}"})
    if paused & got:
        o.V.append({"mech": "paused_type_delivered", "detail": f"{ctx}: paused={sorted(paused)} yet delivered {sorted(paused & got)}"})
    if paused & sub:
        o.V.append({"mech": "type_both_subscribed_and_paused", "detail": f"{ctx}: {sorted(paused & sub)}"})
    return sub, paused


def build_state(S, state, univ):
    c = S.c
    c.unsubscribe([ALL])
    if state["all"]:
        c.subscribe([ALL])
        return
    subs = [univ[i] for i, x in enumerate(state["st"]) if x in "sp"]
    ps = [univ[i] for i, x in enumerate(state["st"]) if x == "p"]
    if subs:
        c.subscribe(subs)
    if ps:
        c.pause_subscription(ps)


def apply_op(S, op, univ, o: Obs, ctx):
    from pyrtma.exceptions import InvalidSubscription
    c = S.c
    name, sh = op
    args = resolve(sh, univ) if sh is not None else None
    was_all = ALL in c.subscribed_types
    before = (c.subscribed_types, c.paused_subscribed_types)
    if name in ("subscription_context", "paused_subscription_context"):
        if was_all:
            # individual lists while sub-all: must be refused, nothing changes
            try:
                with getattr(c, name)(args):
                    pass
                refused = False
            except InvalidSubscription:
                refused = True
            if args:
                o.bump("suball_refusals_checked")
                if not refused:
                    o.V.append({"mech": "suball_individual_change_accepted", "detail": f"{ctx}: {name}({args}) while subscribed to all was not refused"})
            return check_agreement(S, univ, o, ctx + " after refused context")
        inside = None
        with warnings.catch_warnings():
            warnings.simplefilter("ignore")
            with getattr(c, name)(args):
                inside = check_agreement(S, univ, o, ctx + " inside context")
        after = check_agreement(S, univ, o, ctx + " after context")
        if after is not None:
            o.bump("context_restores_checked")
            if after != before:
                o.V.append({"mech": f"context_does_not_restore:{name}:{ctx_shape(args, before)}",
                            "detail": f"{ctx}: {name}({args}) entered with subscribed={sorted(before[0])} paused={sorted(before[1])}, "
                                      f"left with subscribed={sorted(after[0])} paused={sorted(after[1])}"})
        return after
    try:
        if args is None:
            getattr(c, name)()
        else:
            getattr(c, name)(args)
        raised = None
    except InvalidSubscription as e:
        raised = e
    individual = (args is not None and ALL not in args) or name == "resume_all_subscriptions"
    if was_all and individual and name != "resume_all_subscriptions":
        o.bump("suball_refusals_checked")
        if raised is None:
            o.V.append({"mech": "suball_individual_change_accepted", "detail": f"{ctx}: {name}({args}) while subscribed to all was not refused"})
    elif raised is not None and not was_all:
        o.V.append({"mech": "valid_request_refused", "detail": f"{ctx}: {name}({args}) raised InvalidSubscription while not subscribed to all"})
    after = check_agreement(S, univ, o, ctx + " after op")
    if was_all and individual and after is not None and after != before:
        o.V.append({"mech": "suball_individual_change_changed_state", "detail": f"{ctx}: before {before} after {after}"})
    return after


def ctx_shape(args, before):
    sub, paused = before
    kinds = "".join("s" if a in sub else "p" if a in paused else "n" for a in args)
    dup = "dup" if len(set(args)) != len(args) else "nodup"
    return f"{kinds}:{dup}"


def run_twins(case):
    """two live clients under one module id (allow_multiple): each has its own subscriptions, and for each of them what it
    reports is what the manager delivers to its connection"""
    import time as _t
    import warnings
    from pyrtma.client import Client
    from vf.rig.client_rig import RawReader
    warnings.simplefilter("ignore")
    tc = bool(case.get("tc"))
    rig = ManagerRig(stepped=False, timecode=tc)
    res = {"violations": [], "counters": {}, "sets": {}, "sig": sig_of(["twins", case["seed"], tc]), "nontrivial": True}
    V, C = res["violations"], res["counters"]
    rng = random.Random(case["seed"])
    univ = [1001, 1002, 1003]
    twins = []
    try:
        for k in range(2):
            c = Client(module_id=50, timecode=tc)
            c.connect(f"127.0.0.1:{rig.addr[1]}", allow_multiple=True)
            twins.append({"c": c, "rd": RawReader(c.sock, tc), "sent0": c.msg_count, "acks": 0})
        P = rig.client("P")
        P.send_frame(W.MT_CONNECT_V2, W.p_connect_v2(0, 0, 0, 77, 1, b"prober"), src_mod=77)
        P.send_frame(W.MT_CONNECT, W.p_connect(0, 0), src_mod=77)
        packs, tag = [1], [0]

        def wait_p():
            end = _t.time() + 5
            while _t.time() < end:
                if sum(1 for f in P.frames()[0] if f.msg_type == W.MT_ACK) >= packs[0]:
                    return True
                _t.sleep(0.001)
            return False

        if not wait_p():
            res["inconclusive"] = "prober handshake not acknowledged"
            return res
        for step in range(case["len"]):
            t = twins[rng.randrange(2)]
            op = rng.choice(["subscribe", "subscribe", "unsubscribe", "pause_subscription", "resume_subscription", "subscribe_all", "unsubscribe_from_all"])
            arg = rng.sample(univ, rng.randint(1, 2))
            try:
                if op == "subscribe_all":
                    t["c"].subscribe([ALL])
                elif op == "unsubscribe_from_all":
                    t["c"].unsubscribe_from_all()
                else:
                    getattr(t["c"], op)(arg)
            except Exception:
                pass      # refusals (e.g. under subscribe-to-all) are C02's main cases; here only the outcome matters
            for tw in twins:
                sent = tw["c"].msg_count - tw["sent0"]
                tw["sent0"] = tw["c"].msg_count
                tw["acks"] += sent
                if not tw["rd"].wait_for(lambda fs, n=tw["acks"]: sum(1 for f in fs if f.msg_type == W.MT_ACK and f.dest_mod == 50) >= n, 5.0):
                    res["inconclusive"] = "a twin's control frames were not acknowledged in time"
                    return res
            tags = {}
            for ty in univ + [1999]:
                tag[0] += 1
                st = 3_000_000_000.0 + tag[0]
                tags[st] = ty
                P.send_frame(ty, b"", send_time=st, src_mod=77)
            P.send_frame(W.MT_SUBSCRIBE, W.p_sub(4999), src_mod=77)
            packs[0] += 1
            if not wait_p() or not rig.outq_empty(5.0):
                res["inconclusive"] = "probe fence timed out"
                return res
            for k, tw in enumerate(twins):
                tw["rd"].pump(0.0)
                got = {tags[f.send_time] for f in tw["rd"].frames() if f.send_time in tags}
                subs = set(tw["c"].subscribed_types)
                want = set(univ + [1999]) if ALL in subs else {x for x in subs if x in univ}
                C["twin_probes_compared"] = C.get("twin_probes_compared", 0) + 1
                if got != want:
                    V.append({"mech": "twin_reported_but_not_delivered" if want - got else "twin_delivered_but_not_reported",
                              "detail": f"step {step} ({op} {arg}): instance {k} of module 50 reports subscribed={sorted(subs)} paused={sorted(tw['c'].paused_subscribed_types)}; "
                                        f"probes delivered to its connection {sorted(got)}, expected {sorted(want)}"})
                    return res
        return res
    finally:
        for tw in twins:
            try:
                tw["c"]._sock.close()
                tw["c"]._connected = False
                for h in list(tw["c"].logger.logger.handlers):
                    tw["c"].logger.logger.removeHandler(h)
            except Exception:
                pass
        rig.close()


def run_case(case, tier):
    if case.get("kind") == "twins":
        return run_twins(case)
    rig = ManagerRig(stepped=False, timecode=bool(case.get("tc")))
    res = {"violations": [], "counters": {}, "sets": {}, "sig": None, "nontrivial": False}
    o = Obs(res)
    univ = U if case["n_types"] == 3 else U4
    if case.get("n", 0) % 4 == 2:
        # the universe at the upper edge of the id range: 10000 is the largest message id a definition may have
        univ = [9999, 10000, 9998] + univ[3:]
        res["counters"]["cases_with_largest_message_id"] = 1
    try:
        # every third case the client is a logger module: subscriptions work the same for it
        S = ApiSession(rig, logger=bool(case.get("n", 0) % 3 == 1))
        try:
            if case["kind"] == "bfs":
                for u in case["units"]:
                    ctx = f"state {'ALL' if u['state']['all'] else ''.join(u['state']['st'])} op {u['op'][0]}({u['op'][1]})"
                    build_state(S, u["state"], univ)
                    before = check_agreement(S, univ, o, ctx + " at start")
                    if before is None:
                        break
                    # the canonical path must have reached the intended abstract state
                    want_sub = {ALL} if u["state"]["all"] else {univ[i] for i, x in enumerate(u["state"]["st"]) if x == "s"}
                    want_p = set() if u["state"]["all"] else {univ[i] for i, x in enumerate(u["state"]["st"]) if x == "p"}
                    if before != (want_sub, want_p):
                        o.V.append({"mech": "state_construction_mismatch", "detail": f"{ctx}: wanted {sorted(want_sub)}/{sorted(want_p)} got {before}"})
                        continue
                    after = apply_op(S, u["op"], univ, o, ctx)
                    o.bump("transitions")
                    res["sets"].setdefault("state_op", []).append([ctx])
                    if after is not None and after != before:
                        res["nontrivial"] = True
                res["sig"] = sig_of(case["units"])
            else:
                rng = random.Random(case["seed"])
                names = ["subscribe", "unsubscribe", "pause_subscription", "resume_subscription", "unsubscribe_from_all",
                         "pause_all_subscriptions", "resume_all_subscriptions", "subscription_context", "paused_subscription_context"] * 3 + \
                        ["reconnect_clean", "reconnect_lost", "intruder"]
                trace = []
                for i in range(case["len"]):
                    name = rng.choice(names)
                    if name == "intruder":
                        # somebody else asks for this client's module id and is refused: nothing the client did, nothing
                        # about its subscriptions may change
                        trace.append([name, None])
                        x = rig.client(f"intruder{i}")
                        mid_ = S.c.module_id
                        try:
                            x.send_frame(W.MT_CONNECT_V2, W.p_connect_v2(0, 0, rng.randint(0, 1), mid_, 4243, b""), src_mod=mid_)
                            x.send_frame(W.MT_CONNECT, W.p_connect(0, 0), src_mod=mid_)
                        except OSError:
                            pass
                        end = time.time() + 5
                        while time.time() < end and x.eof is None:
                            time.sleep(0.002)
                        refused = x.eof is not None
                        x.close()
                        if not refused:
                            o.V.append({"mech": "duplicate_id_not_refused", "detail": f"walk step {i}: a second connection naming the client's id {mid_} was not closed"})
                        o.bump("intruders_refused")
                        after = check_agreement(S, univ, o, f"walk step {i} intruder refused (id {mid_})")
                        if after is None:
                            break
                        continue
                    if name.startswith("reconnect"):
                        trace.append([name, None])
                        S.reconnect(lost=(name == "reconnect_lost"))
                        o.bump("reconnects")
                        after = check_agreement(S, univ, o, f"walk step {i} {name}")
                        if after is None:
                            break
                        res["sets"].setdefault("walk_states", []).append([sorted(after[0]), sorted(after[1])])
                        continue
                    if name.endswith("_all") or name.endswith("subscriptions"):
                        op = [name, None]
                    else:
                        k = rng.randint(0, len(univ))
                        sh = [rng.randrange(len(univ)) for _ in range(k)]
                        if rng.random() < 0.12 and "context" not in name:
                            sh.insert(rng.randint(0, len(sh)), "A")
                        op = [name, sh]
                    trace.append(op)
                    before = (S.c.subscribed_types, S.c.paused_subscribed_types)
                    after = apply_op(S, op, univ, o, f"walk step {i} {op} from {sorted(before[0])}/{sorted(before[1])}")
                    if after is None:
                        break
                    res["sets"].setdefault("walk_states", []).append([sorted(after[0]), sorted(after[1])])
                    if after != before:
                        res["nontrivial"] = True
                res["sig"] = sig_of(trace)
                if case.get("n", 0) % 17 == 0:
                    res["sample"] = {"walk": trace[:20]}
        finally:
            S.close()
        if not rig.alive():
            o.V.append({"mech": "manager_died", "detail": (rig.crash or "")[-800:]})
        if res.get("problems"):
            res["inconclusive"] = "; ".join(res["problems"][:2])
        if case["kind"] == "bfs" and case.get("n", 0) % 7 == 0:
            res["sample"] = {"units": case["units"][:6]}
        return res
    finally:
        rig.close()
