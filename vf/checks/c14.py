"""C14 — undeliverable messages are reported, not silently lost.

Faults injected: (a) the writability snapshot of a select round reports chosen subscribers not-writable (a
legitimate select outcome: full send buffer); (b) chosen subscribers reset their connection before the round
and the publisher is serviced first, so the failure is discovered on the write side.
Monitor: FAILED_MESSAGE frames parsed at monitor clients (raw struct layout), deliveries at every subscriber.
"""
from __future__ import annotations

import itertools
import random

from vf.rig import wire as W
from vf.rig.manager_rig import ManagerRig
from vf.rig.scenario import Scenario, stream_checks
from vf.models.router import ALL
from vf.driver import sig_of

ID = "C14"
LEVEL = "fault_enumeration"
RULE = ("cases = (k subscribers in 1..4; per subscriber: subscribed to the type | to ALL, logger flag) x (subset reported "
        "not-writable) x (subset reset before the round, discovered on write) x destination {broadcast, addressed to a "
        "subscriber, addressed to an absent id} x message type {ordinary, FAILED_MESSAGE, RTMA_LOG_*} x monitor itself "
        "not-writable; quick samples this product, thorough enumerates all not-writable subsets for k<=4. Non-trivial "
        "= at least one eligible subscriber was made undeliverable; distinct = distinct case descriptor")
ASSUMPTIONS = ["reporting a writable socket as not writable is behaviour select legitimately has; the opposite is never injected",
               "a reset has reached the manager's kernel before the round (the harness waits for it), so the write fails",
               "more than one notice per failure, or a notice for a subscriber the destination filter would skip, is "
               "not prohibited by the statement (counted as advisory)"]
REQUIRE = {"nested_failures_checked": 30, "manager_originated_undeliverable": 50, "undeliverable_events": 100, "notices_matched": 100, "notices_for_write_failures": 20, "logger_waits_checked": 10, "recursion_cases": 10}
CASE_TIMEOUT = 60
T = 1234


def build(c):
    k = c["k"]
    steps = [["open", "p"], ["hello", "p", {"mod_id": 10}], ["open", "m"], ["hello", "m", {"mod_id": 11}],
             ["open", "m2"], ["hello", "m2", {"mod_id": 12}]]
    for i in range(k):
        steps += [["open", f"s{i}"], ["hello", f"s{i}", {"mod_id": 20 + i, "logger": int(c["logger"][i])}]]
    steps.append(["drain"])
    if c.get("mon_all"):
        # nobody subscribes to FAILED_MESSAGE by name and there is no logger: the only module entitled to the notices
        # is one subscribed to everything
        steps += [["sub", "m", ALL]]
    else:
        steps += [["sub", "m", W.MT_FAILED_MESSAGE], ["sub", "m2", W.MT_FAILED_MESSAGE]]
    for i in range(k):
        steps.append(["sub", f"s{i}", ALL if c["suball"][i] else c["type"]])
    if c.get("pub_sub"):
        steps.append(["sub", "p", c["type"]])     # the publisher is a subscriber of its own type
    if c.get("rehello"):
        # every subscriber repeats its handshake with the opposite logger flag: ignored, it stays what it was
        for i in range(k):
            steps.append(["hello", f"s{i}", {"mod_id": 20 + i, "logger": int(not c["logger"][i]), "v2": bool(i % 2), "v1_after": True}])
    steps.append(["drain"])
    for i in c["rst"]:
        steps += [["close", f"s{i}", "rst"], ["await_closed", f"s{i}"]]
    dm = {"b": 0, "a": "@s0", "x": 77}[c["dest"]]
    for n in range(c.get("npub", 1)):
        steps.append(["pub", "p", c["type"], dm, c.get("dh", 0), 16])     # (a valid destination host changes nothing about who is served)
        nw = [f"s{i}" for i in c["nw"]] + (["m"] if c["mon_nw"] else []) + (["p"] if c.get("pub_sub") == "nw" else [])
        steps.append(["round", {"only": ["p"], "order": ["p"], "nw": nw, "adv": 0.001}])
    steps.append(["drain", {"adv": 0.001}])
    return steps


def gen_cases(tier, seed):
    rng = random.Random(f"c14-{seed}")
    cases = []

    def add(**c):
        cases.append(c)

    types = [T, T, T, 5000, 0, 9999, W.MT_FAILED_MESSAGE, 42, 40, 45]
    if tier == "thorough":
        for k in (1, 2, 3, 4):
            for nwbits in range(1 << k):
                nw = [i for i in range(k) if nwbits >> i & 1]
                for logbits in range(1 << k):
                    logger = [bool(logbits >> i & 1) for i in range(k)]
                    for dest in "bax":
                        for ty in (T, W.MT_FAILED_MESSAGE, 42):
                            rst = [i for i in range(k) if rng.random() < 0.25]
                            suball = [rng.random() < 0.3 for _ in range(k)]
                            add(k=k, nw=nw, logger=logger, suball=suball, rst=rst, dest=dest, type=ty,
                                mon_nw=rng.random() < 0.2, npub=rng.choice([1, 1, 2]))
        extra = 40000
    else:
        # every not-writable subset for k<=3 (broadcast, ordinary type, no loggers) + sampled product
        for k in (1, 2, 3):
            for nwbits in range(1 << k):
                add(k=k, nw=[i for i in range(k) if nwbits >> i & 1], logger=[False] * k, suball=[False] * k, rst=[],
                    dest="b", type=T, mon_nw=False, npub=1)
        extra = 3000
    for _ in range(extra):
        k = rng.randint(1, 4)
        add(k=k, nw=[i for i in range(k) if rng.random() < 0.4], logger=[rng.random() < 0.3 for _ in range(k)],
            suball=[rng.random() < 0.3 for _ in range(k)], rst=[i for i in range(k) if rng.random() < 0.25],
            dest=rng.choice("bbax"), type=rng.choice(types), mon_nw=rng.random() < 0.2, npub=rng.choice([1, 1, 2]),
            pub_sub=rng.choice([None, None, None, "ok", "nw"]), dh=rng.choice([0, 0, 0, 1, 3, 5]))
        if rng.random() < 0.15:
            cases[-1].update(mon_all=True, mon_nw=False, logger=[False] * k)
        if rng.random() < 0.15:
            cases[-1].update(rehello=True)
    # messages that originate from the manager itself (CLIENT_INFO after CLIENT_SET_NAME / MODULE_READY) and cannot
    # be handed to a subscriber
    for _ in range(300 if tier == "quick" else 6000):
        k = rng.randint(1, 3)
        add(kind="mgr", k=k, nw=[i for i in range(k) if rng.random() < 0.4], logger=[rng.random() < 0.25 for _ in range(k)],
            suball=[rng.random() < 0.4 for _ in range(k)], rst=[i for i in range(k) if rng.random() < 0.35],
            trig=rng.choice(["name", "ready"]), mon_nw=False)
    # a failure nested inside the delivery of a failure notice
    for rep in range(8 if tier == "quick" else 400):
        for x in ("nw", "rst"):
            for y in ("nw", "rst"):
                add(kind="nested", x=x, y=y, f_extra=bool(rep % 2), rep=rep)
    for i, c in enumerate(cases):
        c["tc"] = i % 5 == 4
    return cases


def build_nested(c):
    """a failure inside the delivery of a failure notice: x cannot be given the publication (not writable / reset); the
    notice about that goes to the monitors m and f; f has just been reset, so the manager drops it and publishes
    CLIENT_CLOSED - which y, its subscriber, cannot be given either. Both losses have to be reported to m."""
    steps = []
    for L, mid in (("p", 10), ("m", 11), ("x", 20), ("f", 21), ("y", 22)):
        steps += [["open", L], ["hello", L, {"mod_id": mid}]]
    steps.append(["drain"])
    steps += [["sub", "m", W.MT_FAILED_MESSAGE], ["sub", "f", W.MT_FAILED_MESSAGE], ["sub", "x", T], ["sub", "y", W.MT_CLIENT_CLOSED]]
    if c["f_extra"]:
        steps.append(["sub", "f", W.MT_CLIENT_INFO])
    steps.append(["drain"])
    dead = ["f"] + (["x"] if c["x"] == "rst" else []) + (["y"] if c["y"] == "rst" else [])
    for L in dead:
        steps += [["close", L, "rst"], ["await_closed", L]]
    steps.append(["pub", "p", T, 0, 0, 16])
    nw = (["x"] if c["x"] == "nw" else []) + (["y"] if c["y"] == "nw" else [])
    steps.append(["round", {"only": ["p"], "order": ["p"], "nw": nw, "adv": 0.001}])
    steps.append(["drain", {"adv": 0.001}])
    return steps


def judge_nested(sc, c):
    res = {"violations": [], "counters": {}, "sets": {}, "sig": sig_of({k: c[k] for k in c if k not in ("n",)}), "nontrivial": True}
    V, C = res["violations"], res["counters"]
    if sc.crashed or sc.hung:
        V.append({"mech": "manager_died", "detail": (sc.rig.crash or "hung")[-800:]})
        return res
    if sc.problems:
        res["inconclusive"] = "; ".join(sc.problems[:3])
        return res
    rx = sc.received()
    seen = [(n["dest_mod_id"], n["h_type"]) for n in (W.unpack_failed(f.payload) for f in rx["m"]["frames"]
                                                      if f.msg_type == W.MT_FAILED_MESSAGE and f.src_mod == 0 and len(f.payload) == 64)]
    C["nested_failures_checked"] = 1
    C["undeliverable_events"] = 2
    if (20, T) not in seen:
        V.append({"mech": "silent_loss_not_writable" if c["x"] == "nw" else "silent_loss_write_failure",
                  "detail": f"nested case {c['x']}/{c['y']}: no FAILED_MESSAGE names module 20 for type {T}; monitor saw {seen}"})
    if (22, W.MT_CLIENT_CLOSED) not in seen:
        V.append({"mech": "silent_loss_inside_notice_delivery",
                  "detail": f"the notice about module 20 could not be written to the reset monitor (module 21); its CLIENT_CLOSED could not be given to "
                            f"module 22 ({'not writable' if c['y'] == 'nw' else 'reset'}) and no FAILED_MESSAGE names module 22; monitor saw {seen}"})
    res["sets"]["fault_shape"] = [["nested", c["x"], c["y"], c["f_extra"]]]
    return res


def build_mgr(c):
    k = c["k"]
    steps = [["open", "p"], ["hello", "p", {"mod_id": 10}], ["open", "m"], ["hello", "m", {"mod_id": 11}],
             ["open", "m2"], ["hello", "m2", {"mod_id": 12}]]
    for i in range(k):
        steps += [["open", f"s{i}"], ["hello", f"s{i}", {"mod_id": 20 + i, "logger": int(c["logger"][i])}]]
    steps.append(["drain"])
    steps += [["sub", "m", W.MT_FAILED_MESSAGE], ["sub", "m2", W.MT_FAILED_MESSAGE]]
    for i in range(k):
        steps.append(["sub", f"s{i}", ALL if c["suball"][i] else W.MT_CLIENT_INFO])
    steps.append(["drain"])
    for i in c["rst"]:
        steps += [["close", f"s{i}", "rst"], ["await_closed", f"s{i}"]]
    steps.append(["name", "p", b"pp-renamed".hex()] if c["trig"] == "name" else ["ready", "p", 31337])
    steps.append(["round", {"only": ["p"], "order": ["p"], "nw": [f"s{i}" for i in c["nw"]], "adv": 0.001}])
    steps.append(["drain", {"adv": 0.001}])
    return steps


def judge_mgr(sc, c):
    res = {"violations": [], "counters": {}, "sets": {}, "sig": sig_of({k: c[k] for k in c if k not in ("n",)}),
           "nontrivial": False}
    V, C = res["violations"], res["counters"]
    if sc.crashed or sc.hung:
        V.append({"mech": "manager_died", "detail": (sc.rig.crash or "hung")[-800:]})
        return res
    if sc.problems:
        res["inconclusive"] = "; ".join(sc.problems[:3])
        return res
    rx = sc.received()
    for mech, detail in stream_checks(sc, rx):
        V.append({"mech": "c05:" + mech, "detail": detail})
    notices = {}
    for M in ("m", "m2"):
        notices[M] = [W.unpack_failed(f.payload) for f in rx[M]["frames"]
                      if f.msg_type == W.MT_FAILED_MESSAGE and f.src_mod == 0 and len(f.payload) == 64]
        for n in notices[M]:
            if n["h_type"] in (W.MT_FAILED_MESSAGE,) + W.MT_LOGS:
                V.append({"mech": "notice_about_notice_or_log", "detail": f"{M} received a FAILED_MESSAGE whose embedded header has type {n['h_type']}"})
    if [(n["dest_mod_id"], n["h_type"]) for n in notices["m"]] != [(n["dest_mod_id"], n["h_type"]) for n in notices["m2"]]:
        V.append({"mech": "notice_not_to_all_subscribers", "detail": f"m saw {[(n['dest_mod_id'], n['h_type']) for n in notices['m']]}, m2 saw {[(n['dest_mod_id'], n['h_type']) for n in notices['m2']]}"})

    def is_the_info(f):
        if f.msg_type != W.MT_CLIENT_INFO or f.src_mod != 0 or len(f.payload) != 80:
            return False
        u = W.unpack_client(f.payload)
        return u["mod_id"] == 10 and (u["name"] == "pp-renamed" if c["trig"] == "name" else u["pid"] == 31337)

    for i in range(c["k"]):
        L = f"s{i}"
        cs = sc.cl[L]
        dead, nw = i in c["rst"], i in c["nw"]
        copies = sum(1 for f in rx[L]["frames"] if is_the_info(f))
        named = [n for n in notices["m"] if n["dest_mod_id"] == cs.mod_id]
        if (nw and not c["logger"][i]) or dead:
            res["nontrivial"] = True
            C["undeliverable_events"] = C.get("undeliverable_events", 0) + 1
            C["manager_originated_undeliverable"] = C.get("manager_originated_undeliverable", 0) + 1
            if dead or copies == 0:
                mine = [n for n in named if (n["h_type"], n["h_src_mod"], n["h_dest_mod"]) == (W.MT_CLIENT_INFO, 0, 0)]
                if dead:
                    # a dead connection is discovered by whatever the manager writes to it first: with several dead
                    # subscribers that can be the CLIENT_CLOSED of another one, and when the manager publishes its log
                    # messages a subscriber to everything is found by a log message (which never produces a notice)
                    mine = mine or [n for n in named if n["h_src_mod"] == 0 and n["h_type"] in (W.MT_CLIENT_CLOSED, W.MT_CLIENT_INFO)]
                    if not named and c.get("_loud") and c["suball"][i]:
                        C["dead_subscriber_found_by_log_message"] = C.get("dead_subscriber_found_by_log_message", 0) + 1
                        continue
                if not named:
                    V.append({"mech": "silent_loss_manager_message", "detail": f"CLIENT_INFO ({c['trig']}) could not be handed to {L} (mod {cs.mod_id}, logger={c['logger'][i]}, "
                                                                              f"nw={nw}, reset={dead}) and no FAILED_MESSAGE names it; notices: {[(n['dest_mod_id'], n['h_type']) for n in notices['m']]}"})
                elif not mine:
                    V.append({"mech": "notice_wrong_header", "detail": f"notice(s) for {L}: embedded (type,src,dest)={[(n['h_type'], n['h_src_mod'], n['h_dest_mod']) for n in named]}, "
                                                                       f"original ({W.MT_CLIENT_INFO},0,0)"})
                else:
                    C["notices_matched"] = C.get("notices_matched", 0) + 1
                    if dead and not (nw and not c["logger"][i]):
                        C["notices_for_write_failures"] = C.get("notices_for_write_failures", 0) + 1
        else:
            if nw and c["logger"][i]:
                C["logger_waits_checked"] = C.get("logger_waits_checked", 0) + 1
            if copies != 1:
                V.append({"mech": "logger_skipped" if (nw and c["logger"][i]) else "other_subscriber_missed",
                          "detail": f"CLIENT_INFO ({c['trig']}): deliverable subscriber {L} got {copies} copies; nw={c['nw']} rst={c['rst']}"})
            else:
                C["deliveries_ok"] = C.get("deliveries_ok", 0) + 1
    res["sets"]["fault_shape"] = [["mgr", c["k"], len(c["nw"]), len(c["rst"]), c["trig"], sum(c["logger"])]]
    return res


def run_case(case, tier):
    rig = ManagerRig(stepped=True, timecode=bool(case.get("tc")), loud=bool(case.get("n", 0) % 4 == 2))   # every fourth case: the manager publishes its own log messages
    try:
        sc = Scenario(rig, 0)
        sc.vary_source = True
        if case.get("kind") == "nested":
            sc.run(build_nested(case))
            return judge_nested(sc, case)
        if case.get("kind") == "mgr":
            sc.run(build_mgr(case))
            return judge_mgr(sc, dict(case, _loud=bool(case.get("n", 0) % 4 == 2)))
        sc.run(build(case))
        return judge(sc, case)
    finally:
        rig.close()


def judge(sc, c):
    res = {"violations": [], "counters": {}, "sets": {}, "sig": sig_of({k: c[k] for k in c if k not in ("n",)}),
           "nontrivial": False}
    V, C = res["violations"], res["counters"]
    if sc.crashed or sc.hung:
        V.append({"mech": "manager_died", "detail": (sc.rig.crash or "hung")[-800:]})
        return res
    if sc.problems:
        res["inconclusive"] = "; ".join(sc.problems[:3])
        return res
    rx = sc.received()
    for mech, detail in stream_checks(sc, rx):
        V.append({"mech": "c05:" + mech, "detail": detail})
    k = c["k"]
    pid_p = sc.cl["p"].mod_id
    recursion_types = (W.MT_FAILED_MESSAGE,) + W.MT_LOGS
    # notices seen at the monitors
    notices = {}
    for M in ("m", "m2"):
        lst = []
        for f in rx[M]["frames"]:
            if f.msg_type == W.MT_FAILED_MESSAGE and f.pid not in sc.pubs:
                if len(f.payload) != 64 or f.src_mod != 0:
                    V.append({"mech": "notice_malformed", "detail": f"{M}: {f.brief()}"})
                    continue
                lst.append(W.unpack_failed(f.payload))
        notices[M] = lst
    watcher = "m2" if c["mon_nw"] else "m"
    for M in ("m", "m2"):
        for n in notices[M]:
            if n["h_type"] in recursion_types:
                V.append({"mech": "notice_about_notice_or_log",
                          "detail": f"{M} received a FAILED_MESSAGE whose embedded header has type {n['h_type']}"})
    if c["type"] in recursion_types or c["mon_nw"]:
        C["recursion_cases"] = 1
    if not c["mon_nw"] and not c.get("mon_all"):
        # both monitors are writable: everyone subscribed to FAILED_MESSAGE gets every notice
        a = [(n["dest_mod_id"], n["h_type"], n["h_send_time"]) for n in notices["m"]]
        b = [(n["dest_mod_id"], n["h_type"], n["h_send_time"]) for n in notices["m2"]]
        if a != b:
            V.append({"mech": "notice_not_to_all_subscribers", "detail": f"m saw {a}, m2 saw {b}"})
    # per publication
    pubs = [p for p in sc.pubs.values() if p["by"] == "p" and p["must"] is not None]
    dm = {"b": 0, "a": sc.cl["s0"].mod_id, "x": 77}[c["dest"]]
    if c.get("pub_sub") and c["dest"] == "b":
        # the publisher subscribes to its own type: a recipient like any other, also when it is the one not ready
        for p in pubs:
            copies = sum(1 for f in rx["p"]["frames"] if f.pid == p["id"])
            named = [n for n in notices[watcher] if n["dest_mod_id"] == pid_p and n["h_send_time"] == float(p["id"])]
            C["publisher_is_subscriber_checked"] = C.get("publisher_is_subscriber_checked", 0) + 1
            if c["pub_sub"] == "nw":
                if copies == 0 and not named and c["type"] not in recursion_types:
                    V.append({"mech": "silent_loss_not_writable", "detail": f"pub {p['id']} type {c['type']}: the publisher itself (mod {pid_p}) subscribes, was reported "
                                                                            f"not writable, got 0 copies and no FAILED_MESSAGE names it at {watcher}"})
            elif copies != 1:
                V.append({"mech": "other_subscriber_missed", "detail": f"pub {p['id']} type {c['type']}: the publisher itself subscribes and got {copies} copies"})
    for p in pubs:
        for i in range(k):
            L = f"s{i}"
            cs = sc.cl[L]
            eligible = (dm == 0 or cs.mod_id == dm or c["logger"][i])
            first = p is pubs[0]
            dead = i in c["rst"]
            nw = i in c["nw"]
            copies = sum(1 for f in rx[L]["frames"] if f.pid == p["id"])
            named = [n for n in notices[watcher] if n["dest_mod_id"] == cs.mod_id and n["h_send_time"] == float(p["id"])]
            if not first and dead:
                continue  # removed after the first publication discovered it (or never discovered: see below)
            if dead and not eligible and not nw:
                continue  # manager never writes to it: nothing to discover
            if not eligible:
                if copies:
                    V.append({"mech": "unexpected_delivery", "detail": f"{L} not eligible for dest {dm} got {copies}"})
                if named:
                    C["advisory_notice_for_filtered_subscriber"] = C.get("advisory_notice_for_filtered_subscriber", 0) + 1
                continue
            undeliverable = (nw and not c["logger"][i]) or dead
            if undeliverable:
                res["nontrivial"] = True
                C["undeliverable_events"] = C.get("undeliverable_events", 0) + 1
                if dead:
                    pass  # its socket is closed: nothing can be observed there
                if (dead or copies == 0) and c["type"] not in recursion_types:
                    if not named:
                        V.append({"mech": "silent_loss_write_failure" if (dead and not (nw and not c["logger"][i])) else "silent_loss_not_writable",
                                  "detail": f"pub {p['id']} type {c['type']} dest {dm}: eligible subscriber {L} (mod {cs.mod_id}, "
                                            f"logger={c['logger'][i]}, nw={nw}, reset={dead}) got {copies} copies and no FAILED_MESSAGE "
                                            f"names it at {watcher}; notices there: {[(n['dest_mod_id'], n['h_type']) for n in notices[watcher]]}"})
                    else:
                        C["notices_matched"] = C.get("notices_matched", 0) + 1
                        if dead and not (nw and not c["logger"][i]):
                            C["notices_for_write_failures"] = C.get("notices_for_write_failures", 0) + 1
                        n0 = named[0]
                        src_written = p["key"][4]      # the source field as the publisher wrote it (a relay may write anything)
                        if (n0["h_type"], n0["h_src_mod"], n0["h_dest_mod"]) != (c["type"], src_written, dm):
                            V.append({"mech": "notice_wrong_header",
                                      "detail": f"notice for {L}: embedded (type,src,dest)=({n0['h_type']},{n0['h_src_mod']},"
                                                f"{n0['h_dest_mod']}) original ({c['type']},{src_written},{dm})"})
                        if len(named) > 1:
                            C["advisory_duplicate_notice"] = C.get("advisory_duplicate_notice", 0) + 1
                if copies > 1:
                    V.append({"mech": "duplicate_delivery", "detail": f"{L} got {copies}"})
            else:
                if nw and c["logger"][i]:
                    C["logger_waits_checked"] = C.get("logger_waits_checked", 0) + 1
                if copies != 1:
                    V.append({"mech": "logger_skipped" if (nw and c["logger"][i]) else "other_subscriber_missed",
                              "detail": f"pub {p['id']} type {c['type']} dest {dm}: deliverable subscriber {L} (mod {cs.mod_id}, "
                                        f"logger={c['logger'][i]}, reported-not-writable={nw}) got {copies} copies; nw={c['nw']} rst={c['rst']}"})
                else:
                    C["deliveries_ok"] = C.get("deliveries_ok", 0) + 1
    res["sets"]["nw_subset"] = [[k, tuple(c["nw"])]]
    res["sets"]["fault_shape"] = [[k, len(c["nw"]), len(c["rst"]), c["dest"], c["type"], c["mon_nw"], sum(c["logger"])]]
    C["rounds"] = len(sc.rounds)
    C["blocking_logger_waits_seen"] = sc.rig.counters.get("logger_blocking_wait", 0)
    if c.get("n", 0) % 23 == 0 and res["nontrivial"]:
        res["sample"] = {"case": {x: c[x] for x in c if x != "n"},
                         "notices_at_watcher": [(n["dest_mod_id"], n["h_type"], n["h_src_mod"], n["h_dest_mod"]) for n in notices[watcher]]}
    return res
