"""C17 — the data logger loses, duplicates and reorders nothing.

The real DataCollection (real writer thread), real DataSets and formatters write real files. The harness replaces
`data_collection.time` by a virtual clock and the two threading.Event attributes by a subclass that logs every
set/clear/is_set/wait->True atomically with the operation and yields or sleeps 0-2 ms around it with seeded
probability (delays sit between critical sections, at the program's own suspension points). Thorough adds
LINE-level yield injection (sys.monitoring) restricted to data_collection.py / data_set.py.
Oracle: for every data set, the concatenation of its files decoded with the package's own readers must equal the
sequence of selected messages handed to update() while recording and not paused (unique id per message).
"""
from __future__ import annotations

import json
import os
import random
import shutil
import sys
import threading
import time as _time
from pathlib import Path

from vf.driver import sig_of

ID = "C17"
LEVEL = "exploration"
RULE = ("runs = seeded scripts of 0-200 messages over 1-6 data sets (ALL / specific / disjoint / overlapping selections, all four "
        "formatters), virtual-clock jumps placing flush deadlines (15 s) and subdivision deadlines (>=30 s) before / between / after "
        "arrivals, pause-resume windows, ticks without message, stop, up to 3 start-stop cycles on one collection; seeded jitter at "
        "every Event operation in both threads. Non-trivial = >=1 selected message and >=1 background write before stop; distinct = "
        "script hash; distinct interleavings = distinct (thread, event-op, result) traces")
ASSUMPTIONS = ["message identity = header.msg_count (unique per run), which every formatter records",
               "injected delays only at Event operations (and, thorough, at line boundaries of data_collection.py/data_set.py): places "
               "where the real threads can be pre-empted anyway",
               "a wall-clock watchdog (case timeout) firing is inconclusive, not a violation"]
REQUIRE = {"messages_with_edge_ids": 200, "runs": 100, "messages_expected": 3000, "background_writes": 100, "distinct_event_traces": 30, "files_decoded": 300}
CASE_TIMEOUT = 120
TYPES = [62, 26, 63, 15, 32, 9999, 10000, 10000]


class VClock:
    def __init__(self):
        self.now = 1_700_000_000.0
        self.lock = threading.Lock()

    def time(self):
        with self.lock:
            return self.now

    def advance(self, dt):
        with self.lock:
            self.now += dt

    def __getattr__(self, name):
        return getattr(_time, name)


class JEvent(threading.Event):
    """threading.Event that records (thread role, op, result) atomically with the operation and injects seeded delays"""

    def __init__(self, name, trace, seed, p):
        super().__init__()
        self._n = name
        self._trace = trace
        self._tl = threading.Lock()
        self._p = p
        self._rngs = {}
        self._seed = seed
        self.waits = 0

    def _role(self):
        return "W" if threading.current_thread().name.startswith("vf-writer") or threading.current_thread() is not threading.main_thread() else "M"

    def _jit(self):
        r = self._rngs.setdefault(self._role(), random.Random(f"{self._seed}-{self._n}-{self._role()}"))
        x = r.random()
        if x < self._p:
            _time.sleep(r.choice([0, 0, 0.0002, 0.001, 0.002]))

    def set(self):
        self._jit()
        with self._tl:
            super().set()
            self._trace.append((self._role(), self._n, "set"))
        self._jit()

    def clear(self):
        self._jit()
        with self._tl:
            super().clear()
            self._trace.append((self._role(), self._n, "clear"))
        self._jit()

    def is_set(self):
        self._jit()
        with self._tl:
            r = super().is_set()
            self._trace.append((self._role(), self._n, "is_set", r))
        self._jit()
        return r

    def wait(self, timeout=None):
        self.waits += 1
        r = super().wait(timeout)
        if r:
            with self._tl:
                self._trace.append((self._role(), self._n, "wait_true"))
            self._jit()
        return r


def gen_script(rng, tier):
    nds = rng.randint(1, 6)
    dss = []
    for i in range(nds):
        sel = rng.choice([[0x7FFFFFFF], [62], [26, 63], [62, 26], [-5, 0, 62], [15], [32, 62, 63], [63], [0x7FFFFFFF, 62], [10000], [9999, 10000], [10000, 62]])
        dss.append({"name": f"ds{i}", "fmt": rng.choice(["raw", "json", "quicklogger", "msg_header"]), "types": sel,
                    "subdiv": rng.choice([0, 0, 30, 30, 45, 10])})
    cycles = []
    for c in range(rng.choice([1, 1, 1, 2, 3])):
        steps = []
        n = rng.choice([0, 1, 2, 5, 20, 60, 200]) if rng.random() < 0.5 else rng.randint(0, 200)
        for k in range(n):
            r = rng.random()
            if r < 0.07:
                steps.append(["adv", rng.choice([15.5, 16.0, 31.0, 7.0, 29.0, 0.5, 46.0])])
            elif r < 0.11:
                steps.append(["tick"])
            elif r < 0.13:
                steps.append(["pause"])
                for _ in range(rng.randint(0, 4)):
                    steps.append(["msg", rng.choice(TYPES)])
                if rng.random() < 0.5:
                    steps.append(["adv", rng.choice([1.0, 16.0, 35.0])])
                steps.append(["resume"])
            else:
                steps.append(["msg", rng.choice(TYPES)])
                if rng.random() < 0.1:
                    steps.append(["adv", rng.choice([0.01, 0.2, 3.0])])
        # deadlines right before stop, and update+stop back to back (the lost-write window)
        tail = rng.choice(["none", "adv_msg_stop", "adv_tick_stop", "adv_msg_msg_stop", "msg_stop"])
        if tail == "adv_msg_stop":
            steps += [["adv", 15.5], ["msg", rng.choice(TYPES)]]
        elif tail == "adv_tick_stop":
            steps += [["adv", 16.0], ["tick"]]
        elif tail == "adv_msg_msg_stop":
            steps += [["adv", 15.2], ["msg", rng.choice(TYPES)], ["adv", 15.2], ["msg", rng.choice(TYPES)]]
        elif tail == "msg_stop":
            steps += [["msg", rng.choice(TYPES)]]
        cycles.append(steps)
    return {"datasets": dss, "cycles": cycles, "jitter": rng.choice([0.0, 0.2, 0.5, 0.8])}


def gen_cases(tier, seed):
    rng = random.Random(f"c17-{seed}")
    n = 320 if tier == "quick" else 9000
    cases = []
    for i in range(n):
        s = rng.getrandbits(40)
        cases.append({"seed": s, "script": gen_script(random.Random(s), tier), "lines": (tier == "thorough" and i % 4 == 0)})
    return cases


_LINE = {"on": False, "rng": None, "count": 0}


def line_injection(enable, seed=0):
    """LINE-level yield injection restricted to the two data-logger files (sys.monitoring, Python 3.12+)"""
    mon = getattr(sys, "monitoring", None)
    if mon is None:
        return False
    tool = 4
    if enable:
        import pyrtma.data_logger.data_collection as dcm
        import pyrtma.data_logger.data_set as dsm
        files = {dcm.__file__, dsm.__file__}
        _LINE["rng"] = random.Random(seed)
        lock = threading.Lock()

        def cb(code, line):
            if code.co_filename not in files:
                return mon.DISABLE
            _LINE["count"] += 1
            with lock:
                x = _LINE["rng"].random()
            if x < 0.25:
                _time.sleep(0 if x < 0.2 else 0.0005)

        try:
            mon.use_tool_id(tool, "vf-yield")
        except ValueError:
            pass
        mon.register_callback(tool, mon.events.LINE, cb)
        mon.set_events(tool, mon.events.LINE)
        _LINE["on"] = True
    elif _LINE["on"]:
        mon.set_events(tool, 0)
        mon.register_callback(tool, mon.events.LINE, None)
        try:
            mon.free_tool_id(tool)
        except Exception:
            pass
        _LINE["on"] = False
    return True


EDGE_YAML = """message_defs:
  VF_EDGE_LOW:
    id: 9999
    fields:
      n: int32
  VF_EDGE_TOP:
    id: 10000
    fields:
      n: int32
"""


def prepare(tier, seed, scratch):
    # two message definitions at the upper edge of the id range (10000 is the largest id a definition may have)
    from pathlib import Path
    from vf.loaders import langs as L
    d = Path(scratch) / "c17edge"
    (d / "out").mkdir(parents=True, exist_ok=True)
    (d / "edge.yaml").write_text(EDGE_YAML)
    rc, text = L.compile_closure(d / "edge.yaml", d / "out", name="vf_c17_edge", langs=("py",))
    if rc != 0:
        raise RuntimeError("edge definitions did not compile: " + text[-300:])


_EDGE = []


def load_edge():
    if not _EDGE:
        import importlib.util
        import sys
        p = os.path.join(os.environ["VF_SCRATCH"], "c17edge", "out", "vf_c17_edge.py")
        spec = importlib.util.spec_from_file_location("vf_c17_edge", p)
        mod = importlib.util.module_from_spec(spec)
        sys.modules["vf_c17_edge"] = mod
        spec.loader.exec_module(mod)
        _EDGE.append(mod)
    return _EDGE[0]


def run_case(case, tier):
    import pyrtma
    load_edge()
    import pyrtma.core_defs as cd
    from pyrtma.message import Message, get_header_cls, get_msg_cls
    import pyrtma.data_logger.data_collection as dcm
    from pyrtma.data_logger.data_collection import DataCollection
    from pyrtma.data_logger.data_set import DataSet
    from pyrtma.data_logger.metadata import LoggingMetadata
    from pyrtma.data_logger.data_formatter import get_formatter
    import pyrtma.data_logger  # registers the builtin formatters
    import logging
    logging.getLogger("data_logger").setLevel(logging.CRITICAL)
    sc = case["script"]
    res = {"violations": [], "counters": {"runs": 1}, "sets": {}, "sig": sig_of(sc), "nontrivial": False}
    V, C = res["violations"], res["counters"]
    work = Path(os.environ["VF_SCRATCH"]) / f"c17-{os.getpid()}-{case['n']}"
    work.mkdir(parents=True, exist_ok=True)
    clock = VClock()
    real_time_mod = dcm.time
    dcm.time = clock
    trace = []
    md = LoggingMetadata()
    md.update(json.dumps({"cycle": 0}))
    dc = None
    H = get_header_cls()
    uid = [0]
    try:
        dc = DataCollection("vfcoll", str(work), "run_$(cycle)", md, use_thread=True)
        ev1 = JEvent("write_to_disk", trace, case["seed"], sc["jitter"])
        ev2 = JEvent("write_finished", trace, case["seed"] + 1, sc["jitter"])
        dc.write_to_disk, dc.write_finished = ev1, ev2
        end = _time.time() + 30
        while ev1.waits == 0 and _time.time() < end:   # the writer thread has switched to the instrumented event
            _time.sleep(0.005)
        if ev1.waits == 0:
            res["inconclusive"] = "writer thread never reached the substituted event"
            return res
        for d in sc["datasets"]:
            dc.add_data_set(DataSet("vfcoll", d["name"], "", d["name"] + "_$(cycle)", get_formatter(d["fmt"]), d["subdiv"], d["types"], md))
        if case.get("lines"):
            line_injection(True, case["seed"])
        expected = {}   # (cycle, dsname) -> [bytes(header)+bytes(data)]
        for cyc, steps in enumerate(sc["cycles"]):
            if case.get("n", 0) % 5 == 3:
                # a start that is refused (the files of that run number exist already), traffic while nothing is being
                # recorded, then the operator picks another run number and starts again
                md.update(json.dumps({"cycle": 1000 + cyc}))
                dc.start()
                dc.stop()
                for d in sc["datasets"]:
                    expected[(1000 + cyc, d["name"])] = []
                refused = False
                try:
                    dc.start()
                except Exception:
                    refused = True
                if refused:
                    C["refused_starts"] = C.get("refused_starts", 0) + 1
                    for k_ in range(3):
                        uid[0] += 1
                        cls = get_msg_cls(62)
                        data = cls()
                        data.timestamp = float(uid[0])
                        h = H()
                        h.msg_type, h.msg_count, h.send_time, h.src_mod_id = 62, uid[0], 1.0 + uid[0] / 8.0, 10
                        h.num_data_bytes, h.version = cls.type_size, cls.type_hash
                        dc.update(Message(h, data))      # not recording: must leave no trace anywhere
                else:
                    dc.stop()
            md.update(json.dumps({"cycle": cyc}))
            dc.start()
            recording, paused = True, False
            for d in sc["datasets"]:
                expected[(cyc, d["name"])] = []
            for st in steps:
                if st[0] == "adv":
                    clock.advance(st[1])
                elif st[0] == "tick":
                    dc.update(None)
                elif st[0] == "pause":
                    dc.pause()
                    paused = True
                elif st[0] == "resume":
                    dc.resume()
                    paused = False
                elif st[0] == "msg":
                    uid[0] += 1
                    t = st[1]
                    cls = get_msg_cls(t)
                    data = cls()
                    if t == 62:
                        data.timestamp = float(uid[0])
                        data.is_recording = uid[0] & 0x7FFF
                    elif t == 26:
                        data.pid = uid[0]
                    elif t == 15:
                        data.msg_type = uid[0]
                    elif t == 32:
                        data.name = f"n{uid[0]}"
                        data.uid = uid[0]
                    elif t >= 9999:
                        data.n = uid[0]
                        C["messages_with_edge_ids"] = C.get("messages_with_edge_ids", 0) + 1
                    h = H()
                    h.msg_type = t
                    h.msg_count = uid[0]
                    h.send_time = 1.0 + uid[0] / 8.0
                    h.src_mod_id = 10
                    h.num_data_bytes = cls.type_size
                    h.version = cls.type_hash
                    m = Message(h, data)
                    raw = bytes(h) + bytes(data)
                    if not paused:
                        for d in sc["datasets"]:
                            sel = d["types"]
                            if 0x7FFFFFFF in sel or t in [x for x in sel if x > 0]:
                                expected[(cyc, d["name"])].append(raw)
                                C["messages_expected"] = C.get("messages_expected", 0) + 1
                    dc.update(m)
            dc.stop()
        if case.get("lines"):
            line_injection(False)
        dc.close()
        # ---- decode the files
        C["background_writes"] = sum(1 for x in trace if x[0] == "W" and x[1] == "write_finished" and x[2] == "set")
        res["nontrivial"] = C.get("messages_expected", 0) > 0 and C["background_writes"] > 0
        res["sets"]["distinct_event_traces"] = [hash(tuple(trace)) & 0xFFFFFFFFFF]
        res["sets"]["formatters"] = sorted({d["fmt"] for d in sc["datasets"]})
        hs = H().size
        for (cyc, name), exp in expected.items():
            d = next(x for x in sc["datasets"] if x["name"] == name)
            ext = {"raw": ".raw", "json": ".json", "quicklogger": ".bin", "msg_header": ".csv"}[d["fmt"]]
            folder = work / f"run_{cyc}"
            base = folder / f"{name}_{cyc}{ext}"
            files = [base] + sorted(folder.glob(f"{name}_{cyc}_[0-9][0-9][0-9][0-9]{ext}"))
            got = []
            for fp in files:
                if not fp.exists():
                    V.append({"mech": "output_file_missing", "detail": str(fp.name)})
                    continue
                C["files_decoded"] = C.get("files_decoded", 0) + 1
                try:
                    got += decode(fp, d["fmt"], hs)
                except Exception as e:
                    V.append({"mech": f"file_undecodable:{d['fmt']}", "detail": f"{fp.name}: {type(e).__name__}: {str(e)[:200]}"})
            want = [key_of(x, d["fmt"], hs) for x in exp]
            if got != want:
                V.append({"mech": classify(want, got) + ":" + d["fmt"],
                          "detail": f"data set {name} ({d['fmt']}, types {d['types']}, subdivide {d['subdiv']}) cycle {cyc}: expected {len(want)} messages "
                                    f"(ids {ids(want)[:12]}...), files {[f.name for f in files]} hold {len(got)} (ids {ids(got)[:12]}...); "
                                    f"missing ids {sorted(set(ids(want)) - set(ids(got)))[:10]}; event trace tail {trace[-14:]}"})
        if case["n"] % 41 == 0:
            res["sample"] = {"datasets": sc["datasets"], "cycle0_steps": sc["cycles"][0][:25], "event_trace_head": [list(x) for x in trace[:16]]}
        return res
    finally:
        if _LINE["on"]:
            line_injection(False)
        try:
            if dc is not None and not dc._dead:
                dc._close = True
                dc.write_thread.join(2)
                dc._dead = True
        except Exception:
            pass
        dcm.time = real_time_mod
        shutil.rmtree(work, ignore_errors=True)


_QL = {}


def decode(fp, fmt, hs):
    """list of identity keys per stored message"""
    from pyrtma.message import Message
    if fmt == "raw":
        b = fp.read_bytes()
        out, off = [], 0
        import struct
        while off < len(b):
            if len(b) - off < hs:
                raise ValueError(f"trailing {len(b) - off} bytes are not a whole header")
            n = struct.unpack_from("<i", b, off + 32)[0]
            if n < 0 or off + hs + n > len(b):
                raise ValueError(f"frame at {off} declares {n} data bytes, file has {len(b) - off - hs}")
            out.append(b[off:off + hs + n])
            off += hs + n
        return out
    if fmt == "json":
        out = []
        for line in fp.read_text().splitlines():
            m = Message.from_json(line)
            out.append(bytes(m.header) + bytes(m.data))
        return out
    if fmt == "quicklogger":
        from pyrtma.utils.quicklogger_reader import QLReader
        r = QLReader()
        import contextlib, io
        with contextlib.redirect_stdout(io.StringIO()):
            r.load(fp, os.environ.get("VF_REPO", "/repo") + "/src/pyrtma/core_defs.py", skip_unknown=False)
        if r.file_header.num_messages != len(r.messages):
            raise ValueError("header count mismatch")
        return [bytes(m.header) + bytes(m.data) for m in r.messages]
    if fmt == "msg_header":
        lines = fp.read_text().splitlines()
        cols = lines[0].split(",")
        i = cols.index("msg_count")
        return [int(l.split(",")[i]) for l in lines[1:] if l.strip()]
    raise ValueError(fmt)


def key_of(raw, fmt, hs):
    if fmt == "msg_header":
        import struct
        return struct.unpack_from("<i", raw, 4)[0]
    return raw


def ids(seq):
    import struct
    return [x if isinstance(x, int) else struct.unpack_from("<i", x, 4)[0] for x in seq]


def classify(want, got):
    iw, ig = ids(want), ids(got)
    if len(set(ig)) != len(ig):
        return "message_duplicated"
    if set(iw) - set(ig):
        return "message_lost"
    if set(ig) - set(iw):
        return "unselected_message_written"
    if iw != ig:
        return "messages_reordered"
    return "content_differs"
