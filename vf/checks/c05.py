"""C05 — per-connection order, whole frames, gap-free sequence numbers.

Monitors (socket boundary only): strict frame parser on every connection; msg_count of the i-th frame == i;
per (sender, receiver) the sender's embedded sequence is increasing; order-consistency graph over message
identities across all receivers (a cycle = two receivers saw two common messages in opposite orders).
"""
from __future__ import annotations

import random
import threading
import time

from vf.rig import wire as W
from vf.rig.manager_rig import ManagerRig
from vf.rig.scenario import Scenario, stream_checks, PUB_BASE
from vf.models.router import ALL
from vf.driver import sig_of
from vf.checks import c01

ID = "C05"
LEVEL = "exploration"
RULE = ("stepped cases: C01-style op sequences with 2-8 concurrent publishers, sizes {0,small,65535}, ACK traffic on "
        "receiving connections, FAILED_MESSAGE provoked through the not-writable shim, periodic manager messages "
        "provoked through the virtual clock, loggers, prescribed service orders; free-running cases: publisher "
        "threads against the real scheduler. Non-trivial = at least two receivers shared at least two messages "
        "(so relative order was actually compared); distinct = distinct step-list hash")
ASSUMPTIONS = ["identity of manager-originated frames = all header fields but msg_count + payload; identities that "
               "occur twice on one connection are excluded from the order graph (they cannot be told apart)",
               "a connection the manager itself dropped may end mid-frame",
               "harness clients are drained continuously"]
REQUIRE = {"frames_parsed": 5000, "order_pairs_compared": 500, "msg_count_checked": 5000,
           "pressure_big_frames_to_slow_receivers": 40, "twin_messages_delivered": 3000}
CASE_TIMEOUT = 120


def gen_mix(rng: random.Random, tier):
    npub = rng.randint(2, 8)
    nsub = rng.randint(2, 4)
    types = rng.sample([0, 1, 100, 1234, 5000, 9999, 62], 3)
    steps = []
    pubs = [f"p{i}" for i in range(npub)]
    subs = [f"s{i}" for i in range(nsub)]
    for i, L in enumerate(pubs + subs):
        hello = ["hello", L, {"mod_id": 10 + i, "logger": int(L == "s0" and rng.random() < 0.4), "v2": rng.random() < 0.8}]
        if L in subs and L != "s0" and rng.random() < 0.2:
            # a peer that subscribes and receives before it completes its handshake (the manager serves any accepted
            # socket): the numbering of its connection must simply continue through the handshake
            t0 = rng.choice(types)
            steps += [["open", L], ["drain"], ["sub", L, t0], ["drain"]]
            for _ in range(rng.randint(1, 3)):
                steps.append(["pub", pubs[0], t0, 0, 0, rng.choice([0, 8, 200])])
            steps += [["drain"], hello]
        else:
            steps += [["open", L], hello]
    steps.append(["drain"])
    for L in subs:
        if rng.random() < 0.35:
            steps.append(["sub", L, ALL])
        else:
            for t in types:
                if rng.random() < 0.8:
                    steps.append(["sub", L, t])
            steps.append(["sub", L, W.MT_FAILED_MESSAGE])
            if rng.random() < 0.5:
                steps.append(["sub", L, W.MT_CLIENT_INFO])
                steps.append(["sub", L, W.MT_CLIENT_CLOSED])
            if rng.random() < 0.5:
                steps.append(["sub", L, W.MT_TIMING])
                steps.append(["sub", L, W.MT_MESSAGE_TRAFFIC])
    # some publishers also receive
    for L in pubs:
        if rng.random() < 0.3:
            steps.append(["sub", L, rng.choice(types)])
    steps.append(["drain"])
    nrounds = rng.randint(4, 14)
    extra = 0
    for _ in range(nrounds):
        for L in pubs:
            if rng.random() < 0.75:
                for _ in range(rng.choice([1, 1, 2, 3])):
                    steps.append(["pub", L, rng.choice(types), rng.choice([0, 0, 0, "@" + rng.choice(subs)]), 0,
                                  rng.choice([0, 0, 4, 8, 200, 65535] if rng.random() < 0.9 else [rng.randint(0, 65535)])])
        for L in subs:
            r = rng.random()
            if r < 0.15:
                steps.append([rng.choice(["sub", "unsub", "pause", "resume"]), L, rng.choice(types)])
        if rng.random() < 0.08 and extra < 2:
            N = f"x{extra}"
            extra += 1
            steps += [["open", N], ["hello", N, {"mod_id": 0}]]
        opt = {"seed": rng.getrandbits(30), "adv": rng.choice([0.001, 0.001, 0.01, 0.95, 1.1, 5.5])}
        if rng.random() < 0.3:
            opt["nw"] = rng.sample(subs, rng.randint(1, max(1, len(subs) - 1)))
        steps.append(["round", opt])
        if rng.random() < 0.3:
            steps.append(["round", {"seed": rng.getrandbits(30), "adv": 0.001}])
    steps.append(["drain", {"adv": 0.001}])
    return steps


def gen_cases(tier, seed):
    rng = random.Random(f"c05-{seed}")
    n_mix, n_seq, n_free = (420, 200, 10) if tier == "quick" else (20000, 8000, 400)
    cases = []
    for i in range(n_mix):
        s = rng.getrandbits(32)
        cases.append({"kind": "mix", "seed": s, "tc": i % 5 == 4, "loud": (2 if i % 14 == 13 else True) if i % 7 == 6 else False,
                      "steps": gen_mix(random.Random(s), tier)})
    for i in range(n_seq):
        s = rng.getrandbits(32)
        r = random.Random(s)
        steps = [st for st in c01.gen_sequence(r, tier)]
        # keep message types inside the statistics range for this stratum and let the clock move
        for st in steps:
            if st[0] in ("sub", "unsub", "pause", "resume", "pub") and st[2] != ALL:
                st[2] = abs(st[2]) % 10000
            if st[0] == "round":
                st[1]["adv"] = r.choice([0.001, 0.001, 1.0])
        cases.append({"kind": "seq", "seed": s, "tc": i % 4 == 3, "steps": steps})
    # a logger that died silently is discovered while acknowledgement copies are fanned out to several loggers
    for i in range(24 if tier == "quick" else 600):
        s = rng.getrandbits(32)
        r = random.Random(s)
        nlog = r.randint(3, 5)
        steps = []
        for k in range(nlog):
            steps += [["open", f"g{k}"], ["hello", f"g{k}", {"mod_id": 30 + k, "logger": 1}]]
        steps += [["open", "m"], ["hello", "m", {"mod_id": 22}], ["open", "q"], ["hello", "q", {"mod_id": 23}], ["drain"]]
        for k in range(nlog):
            steps.append(["sub", f"g{k}", ALL if r.random() < 0.5 else W.MT_CLIENT_CLOSED])
            if r.random() < 0.5:
                steps.append(["sub", f"g{k}", W.MT_FAILED_MESSAGE])
        steps.append(["drain", {"adv": 0.001}])
        dead = r.sample(range(nlog), r.choice([1, 1, 2]))
        for k in dead:
            steps += [["close", f"g{k}", "rst"], ["await_closed", f"g{k}"]]
        steps += [["sub", "m", 1234], ["pub", "q", 1234, 0, 0, 8], ["round", {"only": ["m", "q"], "seed": r.getrandbits(30), "adv": 0.001}],
                  ["drain", {"adv": 0.001}], ["sub", "q", 1235], ["drain", {"adv": 0.001}]]
        # half of them with the manager's own log messages published (RTMA_LOG_* travel through the same fan-out)
        cases.append({"kind": "mix", "seed": s, "tc": i % 3 == 2, "loud": [False, True, False, 2][i % 4], "steps": steps})
    for i in range(n_free):
        cases.append({"kind": "free", "seed": rng.getrandbits(32), "tc": i % 3 == 2, "npub": rng.randint(2, 8),
                      "nsub": rng.randint(2, 4), "nmsg": rng.choice([200, 500, 1200]), "timeout": 60})
    # two managers in one process (a test bench, a bridge between two networks): each one's streams stay its own
    for i in range(3 if tier == "quick" else 40):
        cases.append({"kind": "twin", "seed": rng.getrandbits(32), "tc": i % 2 == 1, "nmsg": 1500})
    # back-pressure: receivers with a small receive buffer that read slowly while frames far larger than the
    # free send-buffer space are forwarded to them (the manager has to wait for room inside one frame)
    for i in range(16 if tier == "quick" else 300):
        cases.append({"kind": "pressure", "seed": rng.getrandbits(32), "tc": i % 3 == 2, "npub": rng.randint(1, 3),
                      "nbig": rng.randint(6, 20), "rcvbuf": rng.choice([4096, 16384, 65536]),
                      "chunk": rng.choice([1000, 8192, 65536]), "nap": rng.choice([0.0005, 0.002, 0.005]),
                      "hold": rng.choice([0.05, 0.2, 0.5]), "slow_logger": int(rng.random() < 0.25)})
    return cases


def run_case(case, tier):
    if case["kind"] == "free":
        return run_free(case)
    if case["kind"] == "pressure":
        return run_pressure(case)
    if case["kind"] == "twin":
        return run_twin(case)
    rig = ManagerRig(stepped=True, timecode=bool(case.get("tc")), loud=case.get("loud") or False)
    try:
        sc = Scenario(rig, case.get("seed", 0))
        sc.vary_source = True
        sc.run(case["steps"])
        if sc.crashed or sc.hung:
            return {"violations": [{"mech": "manager_died", "detail": (rig.crash or "hung")[-800:]}], "counters": {}}
        rx = sc.received()
        streams = {L: r for L, r in rx.items()}
        logs = {fr[0] for rec in sc.rounds for fr in rec["frames"] if fr[1]["kind"] in ("hello_v2", "hello_v1") and fr[1].get("logger") and fr[2] == "ack"}
        res = judge_streams(streams, {L: (sc.cl[L].closed_by_us, r["eof"]) for L, r in rx.items()},
                            lambda f: sc.pubs.get(f.pid), loggers=logs)
        res["sig"] = sig_of(case["steps"])
        if sc.problems:
            res["inconclusive"] = "; ".join(sc.problems[:3])
        if case.get("n", 0) % 61 == 0:
            L = max(rx, key=lambda k: len(rx[k]["frames"]))
            res["sample"] = {"steps": case["steps"][:30], "receiver": L,
                             "first_frames": [f.brief() for f in rx[L]["frames"][:12]]}
        return res
    finally:
        rig.close()


def judge_streams(streams, closed, pub_of, loggers=()):
    """streams: label -> {frames, leftover, eof, parse_error}"""
    res = {"violations": [], "counters": {}, "sets": {}, "nontrivial": False}
    C = res["counters"]
    V = res["violations"]
    nframes = 0
    seqs = {}
    ackkeys = set()
    for L, r in streams.items():
        ours, eof = closed[L]
        if r["parse_error"]:
            V.append({"mech": "stream_unparsable", "detail": f"{L}: {r['parse_error']}"})
            continue
        if r["leftover"] and eof is None and ours is None:
            V.append({"mech": "stream_partial_frame", "detail": f"{L}: {len(r['leftover'])} trailing bytes do not form a whole frame"})
        frames = r["frames"]
        nframes += len(frames)
        for i, f in enumerate(frames):
            C["msg_count_checked"] = C.get("msg_count_checked", 0) + 1
            if f.msg_count != i + 1:
                V.append({"mech": "msg_count_gap", "detail": f"{L}: frame #{i + 1} (type {f.msg_type}) carries msg_count "
                                                             f"{f.msg_count}; previous {frames[i - 1].msg_count if i else None}"})
                break
        # sender order
        last = {}
        for f in frames:
            p = pub_of(f)
            if p is None:
                if not (f.msg_type in W.MANAGER_TYPES and f.src_mod == 0):
                    V.append({"mech": "alien_frame", "detail": f"{L}: {f.brief()}"})
                    break
                continue
            if f.key() != tuple(p["key"]):
                V.append({"mech": "modified_in_transit", "detail": f"{L}: pub {p['id']}"})
            by = p["by"]
            C["sender_order_checked"] = C.get("sender_order_checked", 0) + 1
            if by in last and p["id"] <= last[by]:
                V.append({"mech": "sender_order", "detail": f"{L}: message {p['id']} of sender {by} arrived after {last[by]}"})
            last[by] = p["id"]
        # identities for the cross-receiver graph
        # acknowledgements are unicast to their requester; only logger modules receive copies of other modules'
        # acknowledgements, so only among loggers is "the same acknowledgement" a message shared by two receivers
        # (a requester's own acknowledgement and the copy a logger gets of it are one message; two non-logger connections
        # never share one - they are compared without acknowledgements further down)
        ids = [f.key() for f in frames]
        for f in frames:
            if f.msg_type == W.MT_ACK and f.src_mod == 0 and pub_of(f) is None:
                ackkeys.add(f.key())
        cnt = {}
        for k in ids:
            cnt[k] = cnt.get(k, 0) + 1
        seqs[L] = [k for k in ids if cnt[k] == 1]
        for f in frames:
            res["sets"].setdefault("frame_types", []).append(f.msg_type if f.msg_type in W.MANAGER_TYPES else -1)
    C["frames_parsed"] = nframes
    # ambiguous identities anywhere are excluded everywhere
    amb = set()
    for L, r in streams.items():
        if r["parse_error"]:
            continue
        seen = set()
        for f in r["frames"]:
            k = f.key()
            if k in seen:
                amb.add(k)
            seen.add(k)
    seqs = {L: [k for k in s if k not in amb] for L, s in seqs.items()}
    # pairwise order consistency (equivalent to acyclicity for total per-connection orders restricted to the
    # common messages of each pair)
    labels = sorted(seqs)
    pairs = 0
    for i in range(len(labels)):
        A = seqs[labels[i]]
        posA = {k: n for n, k in enumerate(A)}
        for j in range(i + 1, len(labels)):
            B = seqs[labels[j]]
            common = [k for k in B if k in posA]
            if labels[i] not in loggers and labels[j] not in loggers:
                common = [k for k in common if k not in ackkeys]
            if len(common) < 2:
                continue
            res["nontrivial"] = True
            pairs += len(common) - 1
            prev = -1
            for n, k in enumerate(common):
                if posA[k] < prev:
                    k0 = common[n - 1]
                    V.append({"mech": classify_inversion(k0, k),
                              "detail": f"receivers {labels[i]} and {labels[j]} saw two common messages in opposite orders: "
                                        f"{labels[j]} got {brief(k0)} before {brief(k)}, {labels[i]} the reverse"})
                    break
                prev = posA[k]
    C["order_pairs_compared"] = pairs
    return res


def brief(k):
    return {"type": k[0], "send_time": k[1], "src": k[4], "dest": k[6], "len": k[7]}


def classify_inversion(k0, k1):
    types = {k0[0], k1[0]}
    if W.MT_FAILED_MESSAGE in types:
        return "order_inversion_failed_message_vs_data"
    if W.MT_CLIENT_CLOSED in types:
        return "order_inversion_client_closed_vs_data"
    return "order_inversion"


# ---------------------------------------------------------------------------------------------- free-running
def run_free(case):
    rng = random.Random(case["seed"])
    rig = ManagerRig(stepped=False, timecode=bool(case.get("tc")), virtual_clock=False)
    try:
        pubs, subs = [], []
        allc = []

        def connect(label, mod_id, logger=0):
            wc = rig.client(label)
            wc.send_frame(W.MT_CONNECT_V2, W.p_connect_v2(logger, 0, 0, mod_id, 1, b""), src_mod=mod_id)
            wc.send_frame(W.MT_CONNECT, W.p_connect(logger, 0), src_mod=mod_id)
            end = time.time() + 5
            while time.time() < end:
                fr, _ = wc.frames()
                if fr:
                    break
                time.sleep(0.002)
            allc.append(wc)
            return wc

        free_logger = rng.random() < 0.5
        for i in range(case["nsub"]):
            s = connect(f"s{i}", 20 + i, logger=int(i == 0 and free_logger))
            if i % 2 == 0:
                s.send_frame(W.MT_SUBSCRIBE, W.p_sub(ALL))
            else:
                for t in (1234, 1235, W.MT_FAILED_MESSAGE, W.MT_TIMING, W.MT_CLIENT_INFO):
                    s.send_frame(W.MT_SUBSCRIBE, W.p_sub(t))
            subs.append(s)
        for i in range(case["npub"]):
            pubs.append(connect(f"p{i}", 40 + i))
        time.sleep(0.05)
        registry = {}
        lock = threading.Lock()
        nmsg = case["nmsg"]

        def worker(idx, wc):
            r = random.Random(case["seed"] * 131 + idx)
            for n in range(nmsg):
                pid = PUB_BASE + idx * 1_000_000 + n + 1
                size = r.choice([0, 0, 8, 64, 1024, 65535] if n % 50 == 0 else [0, 8, 64])
                from vf.rig.scenario import pub_payload
                data = W.frame_bytes(r.choice([1234, 1235]), pub_payload(pid, size), timecode=rig.timecode,
                                     msg_count=n, send_time=float(pid), src_mod=40 + idx, reserved=pid & 0xFFFFFFFF)
                fr = W.parse_frames(data, rig.timecode)[0][0]
                with lock:
                    registry[pid] = {"id": pid, "by": f"p{idx}", "key": fr.key()}
                try:
                    wc.send_raw(data)
                except OSError:
                    return
                if n % 16 == 0:
                    time.sleep(r.choice([0, 0.0005, 0.002]))
                if n % 100 == 50 and r.random() < 0.5:
                    # control traffic on the publisher's own connection -> ACKs interleave
                    wc.send_frame(W.MT_SUBSCRIBE, W.p_sub(1235))

        ths = [threading.Thread(target=worker, args=(i, p), daemon=True) for i, p in enumerate(pubs)]
        for t in ths:
            t.start()
        for t in ths:
            t.join(40)
        # quiescence: wait until the manager has consumed everything (its side of every socket is empty) and
        # has flushed everything it wrote
        end = time.time() + 15
        while time.time() < end:
            time.sleep(0.25)
            if all(inq_empty(s) for s in rig._modules_sockets()):
                break
        rig.wait_rounds(2, 2.0)
        rig.settle(5.0)
        if not rig.alive():
            return {"violations": [{"mech": "manager_died", "detail": (rig.crash or "ended")[-800:]}], "counters": {}}
        streams = snapshot(rig, allc)
        res = judge_streams(streams, {wc.label: (None, wc.eof) for wc in allc},
                            lambda f: registry.get(f.pid), loggers={"s0"} if free_logger else ())
        res["sig"] = sig_of(case)
        res["counters"]["free_running_cases"] = 1
        res["sets"]["free_orders"] = [hash(tuple(rig.orders_seen[:200])) & 0xFFFFFF]
        return res
    finally:
        rig.close()


class SlowClient:
    """raw client with a small receive buffer whose reader holds off, then reads in small chunks with naps"""

    def __init__(self, addr, label, timecode, rcvbuf, hold, chunk, nap):
        import socket
        self.label, self.timecode = label, timecode
        self.sock = socket.socket(socket.AF_INET, socket.SOCK_STREAM)
        self.sock.setsockopt(socket.SOL_SOCKET, socket.SO_RCVBUF, rcvbuf)
        self.sock.setsockopt(socket.IPPROTO_TCP, socket.TCP_NODELAY, 1)
        self.sock.connect(addr)
        self.buf = bytearray()
        self.eof = None
        self.sent = 0
        self.hold, self.chunk, self.nap = hold, chunk, nap
        self.fast = False
        self.last_rx = time.time()
        self.stop = False
        self.lock = threading.Lock()
        self.th = threading.Thread(target=self._run, daemon=True)

    def send_frame(self, msg_type, payload=b"", **kw):
        kw.setdefault("msg_count", self.sent)
        self.sock.sendall(W.frame_bytes(msg_type, payload, timecode=self.timecode, **kw))
        self.sent += 1

    def read_now(self, n, timeout=5.0):
        """blocking read of at least n bytes (used for the handshake before the slow reader starts)"""
        self.sock.settimeout(timeout)
        try:
            while len(self.buf) < n:
                d = self.sock.recv(n - len(self.buf))
                if not d:
                    break
                self.buf += d
        except OSError:
            pass

    def _run(self):
        self.sock.settimeout(0.05)
        time.sleep(self.hold)
        while not self.stop:
            try:
                d = self.sock.recv(1 << 20 if self.fast else self.chunk)
            except TimeoutError:
                continue
            except OSError as e:
                self.eof = "rst"
                return
            if not d:
                self.eof = "fin"
                return
            with self.lock:
                self.buf += d
                self.last_rx = time.time()
            if not self.fast:
                time.sleep(self.nap)

    def frames(self):
        with self.lock:
            data = bytes(self.buf)
        return W.parse_frames(data, self.timecode)

    def close(self):
        self.stop = True
        self.th.join(1)
        try:
            self.sock.close()
        except OSError:
            pass


def run_twin(case):
    """a second MessageManager runs in the same interpreter (plain thread, no shims: the rig's shims only act on the
    rig's own manager thread); both carry traffic with different payload sizes at the same time"""
    import logging
    import pyrtma.manager as pm
    from vf.rig.scenario import pub_payload
    rig = ManagerRig(stepped=False, timecode=bool(case.get("tc")), virtual_clock=False)
    B = None
    thB = None
    try:
        B = pm.MessageManager("127.0.0.1", 0, timecode=bool(case.get("tc")), log_level=logging.CRITICAL + 10, send_msg_timing=True)
        addrB = B.listen_socket.getsockname()
        thB = threading.Thread(target=B.run, daemon=True, name="vf-second-manager")
        thB.start()
        groups = []
        for tag, addr, base in (("A", rig.addr, 0), ("B", addrB, 50)):
            clients = []
            for role, mid in (("s", 20 + base), ("p", 40 + base)):
                wc = W.WireClient(rig.drainer, addr, f"{tag}{role}", timecode=rig.timecode)
                wc.send_frame(W.MT_CONNECT_V2, W.p_connect_v2(0, 0, 0, mid, 1, b""), src_mod=mid)
                wc.send_frame(W.MT_CONNECT, W.p_connect(0, 0), src_mod=mid)
                clients.append(wc)
            clients[0].send_frame(W.MT_SUBSCRIBE, W.p_sub(ALL), src_mod=20 + base)
            groups.append((tag, clients, base))
        time.sleep(0.1)
        registry = {}
        lock = threading.Lock()

        def worker(tag, wc, base, sizes):
            r = random.Random(case["seed"] * 31 + base)
            for n in range(case["nmsg"]):
                pid = PUB_BASE + (base + 1) * 1_000_000 + n + 1
                data = W.frame_bytes(1234 + base, pub_payload(pid, r.choice(sizes)), timecode=rig.timecode, msg_count=n,
                                     send_time=float(pid), src_mod=40 + base, reserved=pid & 0xFFFFFFFF)
                with lock:
                    registry[pid] = {"id": pid, "by": f"{tag}p", "key": W.parse_frames(data, rig.timecode)[0][0].key()}
                try:
                    wc.send_raw(data)
                except OSError:
                    return

        ths = [threading.Thread(target=worker, args=(tag, cl[1], base, [8, 8, 64] if tag == "A" else [0, 24, 1024]), daemon=True)
               for tag, cl, base in groups]
        for t in ths:
            t.start()
        for t in ths:
            t.join(90)
        problems = []
        for tag, cl, base in groups:       # fence: each publisher's request is acknowledged after all it sent
            wc = cl[1]
            before = sum(1 for f in wc.frames()[0] if f.msg_type == W.MT_ACK)
            try:
                wc.send_frame(W.MT_SUBSCRIBE, W.p_sub(4990), src_mod=40 + base)
            except OSError as e:
                problems.append(f"fence request on manager {tag} failed: {e!r}")
                continue
            end = time.time() + 60
            while time.time() < end:
                try:
                    if sum(1 for f in wc.frames()[0] if f.msg_type == W.MT_ACK) > before:
                        break
                except W.ParseError:
                    break
                time.sleep(0.01)
            else:
                problems.append(f"no acknowledgement for the fence request on manager {tag}")
        time.sleep(0.2)
        rig.drainer.sync(10.0)
        res = {"violations": [], "counters": {}, "sets": {}, "nontrivial": False}
        if not rig.alive() or not thB.is_alive():
            res["violations"].append({"mech": "manager_died", "detail": f"first manager alive={rig.alive()} second alive={thB.is_alive()}: {(rig.crash or '')[-600:]}"})
        for tag, cl, base in groups:
            streams = snapshot(rig, cl)
            r1 = judge_streams(streams, {wc.label: (None, wc.eof) for wc in cl}, lambda f: registry.get(f.pid))
            res["violations"] += [dict(v, detail=f"manager {tag}: " + v["detail"]) for v in r1["violations"]]
            for k_, v_ in r1["counters"].items():
                res["counters"][k_] = res["counters"].get(k_, 0) + v_
            got = sum(1 for f in streams[cl[0].label]["frames"] if f.pid in registry)
            res["counters"]["twin_messages_delivered"] = res["counters"].get("twin_messages_delivered", 0) + got
        res["nontrivial"] = True
        res["sig"] = sig_of(case)
        res["counters"]["twin_cases"] = 1
        if problems:
            res["inconclusive"] = "; ".join(problems)
        return res
    finally:
        try:
            if B is not None:
                B.close()
            if thB is not None:
                thB.join(3)
        except Exception:
            pass
        rig.close()


def run_pressure(case):
    from vf.rig.scenario import pub_payload
    rng = random.Random(case["seed"])
    rig = ManagerRig(stepped=False, timecode=bool(case.get("tc")), virtual_clock=False)
    slow = []
    try:
        hsz = 56 if rig.timecode else 48
        for i in range(2):
            sc = SlowClient(rig.addr, f"w{i}", rig.timecode, case["rcvbuf"], case["hold"] * (i + 1), case["chunk"], case["nap"])
            lg = int(i == 0 and case["slow_logger"])
            sc.send_frame(W.MT_CONNECT_V2, W.p_connect_v2(lg, 0, 0, 20 + i, 1, b""), src_mod=20 + i)
            sc.send_frame(W.MT_CONNECT, W.p_connect(lg, 0), src_mod=20 + i)
            sc.read_now(hsz)
            for t in ((ALL,) if i == 0 else (1234, 1235)):
                sc.send_frame(W.MT_SUBSCRIBE, W.p_sub(t), src_mod=20 + i)
            sc.read_now(hsz * (2 if i == 0 else 3))
            slow.append(sc)
        fast = rig.client("f0")
        fast.send_frame(W.MT_CONNECT_V2, W.p_connect_v2(0, 0, 0, 30, 1, b""), src_mod=30)
        fast.send_frame(W.MT_CONNECT, W.p_connect(0, 0), src_mod=30)
        fast.send_frame(W.MT_SUBSCRIBE, W.p_sub(ALL), src_mod=30)
        pubs = []
        for i in range(case["npub"]):
            p = rig.client(f"p{i}")
            p.send_frame(W.MT_CONNECT_V2, W.p_connect_v2(0, 0, 0, 40 + i, 1, b""), src_mod=40 + i)
            p.send_frame(W.MT_CONNECT, W.p_connect(0, 0), src_mod=40 + i)
            pubs.append(p)
        time.sleep(0.05)
        for sc in slow:
            sc.th.start()
        registry = {}
        lock = threading.Lock()

        def worker(idx, wc):
            r = random.Random(case["seed"] * 977 + idx)
            for n in range(case["nbig"]):
                pid = PUB_BASE + idx * 1_000_000 + n + 1
                size = r.choice([1 << 20, 1 << 20, 300_000, 70_000, 100, 0])
                data = W.frame_bytes(r.choice([1234, 1235]), pub_payload(pid, size), timecode=rig.timecode,
                                     msg_count=n, send_time=float(pid), src_mod=40 + idx, reserved=pid & 0xFFFFFFFF)
                with lock:
                    registry[pid] = {"id": pid, "by": f"p{idx}", "key": W.parse_frames(data, rig.timecode)[0][0].key()}
                try:
                    wc.send_raw(data)
                except OSError:
                    return
                if n == case["nbig"] // 2 and idx == 0:
                    # control traffic from a slow receiver while large frames are in flight to it
                    try:
                        slow[1].send_frame(W.MT_SUBSCRIBE, W.p_sub(1236), src_mod=21)
                    except OSError:
                        pass

        ths = [threading.Thread(target=worker, args=(i, p), daemon=True) for i, p in enumerate(pubs)]
        for t in ths:
            t.start()
        # the slow readers speed up after a bounded slow phase, so the whole exchange finishes in bounded time
        t_slow_end = time.time() + 4.0
        for t in ths:
            while t.is_alive():
                t.join(0.2)
                if time.time() > t_slow_end:
                    for sc in slow:
                        sc.fast = True
                if time.time() > t_slow_end + 80:
                    break
        for sc in slow:
            sc.fast = True
        problems = []
        if any(t.is_alive() for t in ths):
            problems.append("publisher threads still blocked in send after the slow phase ended")

        def fence(tag):
            """every publisher sends a request and waits for its acknowledgement: the single-threaded manager has then
            finished (written out) everything those publishers sent before; after that every receiver reads until
            nothing is in flight any more. Logical, not timed: the generous limits only guard against a hang."""
            for idx, wc in enumerate(pubs):
                try:
                    before = sum(1 for f in wc.frames()[0] if f.msg_type == W.MT_ACK)
                    wc.send_frame(W.MT_SUBSCRIBE, W.p_sub(4990 + idx), src_mod=40 + idx)
                except (OSError, W.ParseError) as e:
                    problems.append(f"{tag}: fence request of p{idx} failed: {e!r}")
                    continue
                end = time.time() + 60
                while time.time() < end:
                    try:
                        if sum(1 for f in wc.frames()[0] if f.msg_type == W.MT_ACK) > before:
                            break
                    except W.ParseError:
                        break
                    time.sleep(0.01)
                else:
                    problems.append(f"{tag}: no acknowledgement for the fence request of p{idx} within 60 s")
            if not rig.outq_empty(60.0):
                problems.append(f"{tag}: manager-side send queues did not drain within 60 s")
            end = time.time() + 60
            while time.time() < end:
                if all(inq_empty(sc.sock) for sc in slow) and all(time.time() - sc.last_rx > 0.15 for sc in slow):
                    break
                time.sleep(0.05)
            else:
                problems.append(f"{tag}: slow receivers still had unread data after 60 s")
            rig.settle(10.0)

        fence("after the large frames")
        # everybody has caught up: a few small frames now reach every receiver, so a sequence number that was used up
        # by a frame that never went out (or a frame cut short) becomes visible in what follows it
        for idx, wc in enumerate(pubs):
            for n in range(3):
                pid = PUB_BASE + idx * 1_000_000 + 900_000 + n
                data = W.frame_bytes(1234, pub_payload(pid, 8), timecode=rig.timecode, msg_count=0, send_time=float(pid),
                                     src_mod=40 + idx, reserved=pid & 0xFFFFFFFF)
                registry[pid] = {"id": pid, "by": f"p{idx}", "key": W.parse_frames(data, rig.timecode)[0][0].key()}
                try:
                    wc.send_raw(data)
                except OSError:
                    pass
        fence("after the closing probes")
        if not rig.alive():
            return {"violations": [{"mech": "manager_died", "detail": (rig.crash or "ended")[-800:]}], "counters": {}}
        allc = slow + [fast] + pubs
        streams = snapshot(rig, allc)
        res = judge_streams(streams, {wc.label: (None, wc.eof) for wc in allc},
                            lambda f: registry.get(f.pid), loggers={"w0"} if case["slow_logger"] else ())
        res["sig"] = sig_of(case)
        if problems:
            res["inconclusive"] = "; ".join(problems[:3])
        res["counters"]["pressure_cases"] = 1
        res["counters"]["pressure_big_frames_to_slow_receivers"] = sum(
            1 for sc in slow for f in streams[sc.label]["frames"] if f.nbytes >= 70_000)
        return res
    finally:
        for sc in slow:
            sc.close()
        rig.close()


def snapshot(rig, clients):
    """byte logs of free-running clients. A free-running manager originates periodic messages at any moment, so a
    snapshot can fall between the header and the payload of one of them: while any log ends inside a frame the
    snapshot is retaken (up to ~2 s). A frame that was really cut short stays cut short and is reported."""
    streams = {}
    for attempt in range(100):
        streams = {}
        partial = False
        for wc in clients:
            try:
                fr, left = wc.frames()
                streams[wc.label] = {"frames": fr, "leftover": left, "eof": wc.eof, "parse_error": None}
                partial = partial or bool(left)
            except W.ParseError as e:
                streams[wc.label] = {"frames": [], "leftover": b"", "eof": wc.eof, "parse_error": str(e)}
        if not partial:
            break
        time.sleep(0.02)
        try:
            rig.drainer.sync(1.0)
        except Exception:
            pass
    return streams


def inq_empty(s):
    import fcntl, termios, struct
    try:
        buf = bytearray(4)
        fcntl.ioctl(s.fileno(), termios.FIONREAD, buf)
        return struct.unpack("i", buf)[0] == 0
    except (OSError, ValueError):
        return True
