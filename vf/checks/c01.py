"""C01 — pub/sub routing is exact: right recipients, exactly once, unmodified.

Monitor: every publication carries a unique id (send_time) and a payload derived from it; after the
scenario, the multiset of publication frames on every connection is compared with the RouterModel replayed
in the recorded service order. Everything except msg_count must be byte-identical to what was published.
"""
from __future__ import annotations

import itertools
import random

from vf.rig import wire as W
from vf.rig.manager_rig import ManagerRig
from vf.rig.scenario import Scenario, stream_checks
from vf.models.router import ALL
from vf.driver import sig_of

ID = "C01"
LEVEL = "exploration"
RULE = ("cases = seeded op sequences (connect/subscribe/unsubscribe/pause/resume/sub-ALL/unsub-ALL/disconnect/"
        "close/publish over 2-6 raw clients, several clients' frames queued into one manager round, service "
        "permutation prescribed per round) plus a stratum enumerating every service order of 2-4 concurrent ops; "
        "a case is non-trivial when >=1 publication had >=1 expected recipient AND >=1 publication had a "
        "connected non-recipient; distinct = distinct hash of the executed step list")
ASSUMPTIONS = [
    "shims are faithful (ready set subset of real, shuffle a permutation)",
    "harness clients are always drained, so every connection is writable (C14 owns the not-writable branch)",
    "only connected clients subscribe/publish; manager-originated frames are parsed but are not publications",
    "RouterModel (vf/models/router.py) is written from the statement; recipients that already closed their "
    "socket but whose departure the manager has not serviced yet are don't-care",
]
REQUIRE = {"api_deliveries_compared": 300, "deliveries_compared": 200, "negative_checks": 200, "pubs": 100}
CASE_TIMEOUT = 120

TYPE_POOL = [0, 1, 8, 33, 62, 80, 99, 100, 1234, 5000, 9998, 9999, 10000, 10001, 123456, -1, -7, -10001,
             0x7FFFFFFE, -0x80000000]
SIZES = [0, 1, 8, 24, 1024, 65535]


def gen_sequence(rng: random.Random, tier):
    nc = rng.randint(2, 6)
    labels = [f"c{i}" for i in range(nc)]
    types = rng.sample(TYPE_POOL, rng.randint(2, 4))
    ids = rng.sample(range(1, 100), nc)
    steps, live, nlab = [], [], nc
    opts = {}
    shared = rng.random() < 0.35   # several live connections of one allow-multiple module id
    for i, L in enumerate(labels):
        o = {"mod_id": rng.choice([ids[i], ids[i], 0]), "logger": int(rng.random() < 0.2),
             "v2": rng.random() < 0.75, "name": rng.choice(["", f"n{L}"])}
        if shared and i < 3 and (i < 2 or rng.random() < 0.5):
            o.update(mod_id=ids[0], v2=True, allow_multiple=1, name=rng.choice(["", "multi"]))
        opts[L] = o
        steps += [["open", L], ["hello", L, o]]
        live.append(L)
    steps.append(["drain"])
    nops = rng.randint(8, 30 if tier == "quick" else 45)
    connecting = []
    for _ in range(nops):
        if not live:
            break
        r = rng.random()
        L = rng.choice(live)
        if r < 0.22:
            steps.append(["sub", L, rng.choice(types)])
        elif r < 0.30:
            steps.append(["unsub", L, rng.choice(types)])
        elif r < 0.36:
            steps.append(["pause", L, rng.choice(types)])
        elif r < 0.42:
            steps.append(["resume", L, rng.choice(types)])
        elif r < 0.47:
            steps.append([rng.choice(["sub", "sub", "resume"]), L, ALL])
        elif r < 0.51:
            steps.append([rng.choice(["unsub", "pause"]), L, ALL])
        elif r < 0.54 and len(live) > 2:
            steps.append(rng.choice([["disc", L], ["close", L, "fin"], ["close", L, "rst"]]))
            live.remove(L)
        elif r < 0.555:
            # a second handshake on a live connection, asking for other options: refused, and nothing about the module changes
            steps.append(["hello", L, {"mod_id": rng.choice([0, 77, rng.choice(ids)]), "logger": rng.randint(0, 1), "v2": rng.random() < 0.6,
                                       "v1_after": rng.random() < 0.5, "allow_multiple": rng.randint(0, 1)}])
        elif r < 0.58 and nlab < 10:
            N = f"c{nlab}"
            nlab += 1
            o = {"mod_id": rng.choice([rng.randint(1, 99), 0, rng.choice(ids)]), "logger": int(rng.random() < 0.2),
                 "v2": rng.random() < 0.75}
            steps += [["open", N], ["hello", N, o]]
            connecting.append(N)
        else:
            dm = rng.choice([0, 0, 0, "@" + rng.choice(live), "@" + rng.choice(live), rng.randint(1, 199), 200, 201, -1,
                             32767, -32768])
            dh = rng.choice([0, 0, 0, 0, 1, 5, 6, -1, 32767])
            size = rng.choice(SIZES if rng.random() < 0.9 else [rng.randint(0, 65535)])
            if rng.random() < 0.02:
                size = rng.choice([65536, 70000, 300000, (1 << 20) - 1, 1 << 20])
            steps.append(["pub", L, rng.choice(types), dm, dh, size])
        if rng.random() < 0.35:
            steps.append(["round", {"seed": rng.getrandbits(30)}])
        if connecting and rng.random() < 0.5:
            steps.append(["drain"])
            live += connecting
            connecting = []
    # closing probes: one publication of every type, broadcast, so every final state is exercised
    steps.append(["drain"])
    live += connecting
    if live:
        for t in types:
            steps.append(["pub", rng.choice(live), t, 0, 0, 8])
    return steps


def gen_concurrent(rng: random.Random):
    """k clients each issue one op into the same round; every service order is a separate case."""
    k = rng.choice([2, 2, 3, 3, 4])
    t = rng.choice([1234, 9999, 0])
    base = []
    labels = [f"c{i}" for i in range(k + 1)]
    for i, L in enumerate(labels):
        base += [["open", L], ["hello", L, {"mod_id": 10 + i, "logger": int(i == k and rng.random() < 0.5)}]]
    base.append(["drain"])
    # pre-state
    for L in labels[:k]:
        r = rng.random()
        if r < 0.4:
            base.append(["sub", L, t])
        elif r < 0.55:
            base.append(["sub", L, ALL])
    base.append(["drain"])
    menu = lambda L: rng.choice([["sub", L, t], ["unsub", L, t], ["pause", L, t], ["sub", L, ALL], ["unsub", L, ALL], ["resume", L, ALL], ["pause", L, ALL],
                                 ["resume", L, t], ["pub", L, t, 0, 0, 8], ["pub", L, t, "@" + rng.choice(labels), 0, 4],
                                 ["pub", L, t, 0, 0, 0], ["disc", L], ["close", L, "fin"]])
    ops = [menu(L) for L in labels[:k]]
    if not any(o[0] == "pub" for o in ops):
        ops[0] = ["pub", labels[0], t, 0, 0, 8]
    tail = [["drain"], ["pub", labels[k], t, 0, 0, 8]]
    out = []
    for perm in itertools.permutations(labels[:k]):
        out.append(base + ops + [["round", {"order": list(perm)}]] + tail)
    return out


def gen_cases(tier, seed):
    rng = random.Random(f"c01-{seed}")
    nseq, nconc = (1200, 160) if tier == "quick" else (40000, 4000)
    cases = []
    for i in range(nseq):
        s = rng.getrandbits(32)
        cases.append({"kind": "seq", "seed": s, "tc": (i % 4 == 3), "steps": gen_sequence(random.Random(s), tier)})
    for i in range(nconc):
        s = rng.getrandbits(32)
        for j, steps in enumerate(gen_concurrent(random.Random(s))):
            cases.append({"kind": "perm", "seed": s, "perm": j, "tc": (i % 5 == 4), "steps": steps})
    if tier == "thorough":
        for i in range(40):
            cases.append({"kind": "seq", "seed": i, "tc": bool(i % 2), "loud": True,
                          "steps": gen_sequence(random.Random(f"loud{seed}-{i}"), tier)})
    for i in range(24 if tier == "quick" else 1500):
        cases.append({"kind": "api", "seed": rng.getrandbits(32), "tc": i % 3 == 2, "steps": ["api", i]})
    return cases


def run_api(case):
    """publications made through the real Client API (send_signal / send_message with a destination module or host):
    what the subscribers' sockets show must be what the caller named, and the recipients those the destination implies"""
    import time as _t
    import warnings
    from pyrtma.client import Client
    import pyrtma.core_defs as cd
    warnings.simplefilter("ignore")
    tc = bool(case.get("tc"))
    rig = ManagerRig(stepped=False, timecode=tc)
    res = {"violations": [], "counters": {}, "sets": {}, "sig": sig_of(["api", case["seed"], tc]), "nontrivial": True}
    V, C = res["violations"], res["counters"]
    rng = random.Random(case["seed"])
    SIG, DAT, FENCE = 1234, cd.MDF_FAIL_SUBSCRIBE.type_id, 4321
    c = None
    try:
        recv = {}
        for label, mid, logger, suball in (("r12", 12, 0, False), ("r3", 3, 0, False), ("rall", 40, 0, True), ("rlog", 41, 1, True)):
            wc = rig.client(label)
            wc.send_frame(W.MT_CONNECT_V2, W.p_connect_v2(logger, 0, 0, mid, 1, label.encode()), src_mod=mid)
            wc.send_frame(W.MT_CONNECT, W.p_connect(logger, 0), src_mod=mid)
            for t in ([ALL] if suball else [SIG, DAT, FENCE]):
                wc.send_frame(W.MT_SUBSCRIBE, W.p_sub(t), src_mod=mid)
            recv[label] = (wc, mid, bool(logger), 2 + (1 if suball else 3))
        end = _t.time() + 10
        for label, (wc, mid, lg, nack) in recv.items():
            while _t.time() < end and sum(1 for f in wc.frames()[0] if f.msg_type == W.MT_ACK and f.dest_mod == mid) < nack - 1:
                _t.sleep(0.002)
        c = Client(module_id=30, timecode=tc)
        c.connect(f"127.0.0.1:{rig.addr[1]}")
        calls = []
        for _ in range(rng.randint(6, 14)):
            dm, dh = rng.choice([(0, 0), (12, 0), (3, 0), (0, 2), (0, 5), (12, 1), (40, 0), (41, 0), (77, 0), (5, 0), (0, 1)])
            if rng.random() < 0.5:
                c.send_signal(SIG, dest_mod_id=dm, dest_host_id=dh)
                calls.append((SIG, dm, dh, 0))
            else:
                d = cd.MDF_FAIL_SUBSCRIBE()
                d.mod_id, d.msg_type = rng.randint(1, 99), rng.randint(1, 9999)
                c.send_message(d, dest_mod_id=dm, dest_host_id=dh)
                calls.append((DAT, dm, dh, d.size))
        c.send_signal(FENCE)
        C["api_publications"] = len(calls)
        for label, (wc, mid, lg, _) in recv.items():
            end = _t.time() + 10
            while _t.time() < end and not any(f.msg_type == FENCE for f in wc.frames()[0]):
                _t.sleep(0.002)
            fs = [f for f in wc.frames()[0] if f.msg_type in (SIG, DAT) and f.src_mod == 30]
            if not any(f.msg_type == FENCE for f in wc.frames()[0]):
                res["inconclusive"] = f"fence signal did not reach {label}"
                return res
            want = [(t, dm, dh, n) for t, dm, dh, n in calls if dm == 0 or dm == mid or lg]
            got = [(f.msg_type, f.dest_mod, f.dest_host, f.nbytes) for f in fs]
            C["api_deliveries_compared"] = C.get("api_deliveries_compared", 0) + len(want)
            if got != want:
                V.append({"mech": "api_publication_misrouted_or_relabelled",
                          "detail": f"{label} (mod {mid}, logger={lg}): Client.send_signal/send_message calls (type, dest_mod_id, dest_host_id, bytes) {calls}; "
                                    f"expected at this subscriber {want}, its socket shows {got}"})
        return res
    finally:
        try:
            if c is not None:
                c._sock.close()
                c._connected = False
                for h in list(c.logger.logger.handlers):
                    c.logger.logger.removeHandler(h)
        except Exception:
            pass
        rig.close()


def run_case(case, tier):
    if case.get("kind") == "api":
        return run_api(case)
    rig = ManagerRig(stepped=True, timecode=bool(case.get("tc")), loud=bool(case.get("loud")))
    try:
        sc = Scenario(rig, case.get("seed", 0))
        sc.vary_source = True   # source fields are the publisher's business: they must arrive as written
        sc.run(case["steps"])
        return judge(sc, case)
    finally:
        rig.close()


def judge(sc: Scenario, case):
    res = {"violations": [], "counters": {}, "sets": {}, "sig": sig_of(case["steps"]), "nontrivial": False}
    C = res["counters"]
    if sc.crashed or sc.hung:
        # the manager going down is C03's property; routing cannot be decided on this case
        res["inconclusive"] = None
        C["cases_manager_died"] = 1
        res["violations"].append({"mech": "manager_died", "detail": (sc.rig.crash or "manager hung")[-800:]})
        return res
    rx = sc.received()
    for mech, detail in stream_checks(sc, rx):
        C["stream_anomalies"] = C.get("stream_anomalies", 0) + 1
        res["violations"].append({"mech": "c05:" + mech, "detail": detail})
    if sc.problems:
        res["inconclusive"] = "; ".join(sc.problems[:3])
        return res
    got = {L: {} for L in rx}
    for L, r in rx.items():
        for f in r["frames"]:
            pid = f.pid
            if pid in sc.pubs:
                got[L].setdefault(pid, []).append(f)
    pos = neg = 0
    had_recipient = had_nonrecipient = False
    for pid, p in sc.pubs.items():
        if p["must"] is None:
            continue  # never serviced (publisher dropped before)
        C["pubs"] = C.get("pubs", 0) + 1
        res["sets"].setdefault("pub_kind", []).append(
            [("neg" if p["t"] < 0 else "big" if p["t"] >= 10000 else "core" if p["t"] < 100 else "user"),
             ("bcast" if p["dm"] == 0 else "oor" if not (0 <= p["dm"] <= 200) else "addr"),
             ("hoor" if not (0 <= p["dh"] <= 5) else "h"), min(p["size"], 2) if p["size"] < 1024 else p["size"]])
        res["sets"].setdefault("model_state", []).append(p.get("state"))
        for L, cs in sc.cl.items():
            frames = got[L].get(pid, [])
            if L in p["must"]:
                pos += 1
                had_recipient = True
                if cs.closed_by_us and len(frames) == 0:
                    # we closed this client later; its log was settled before closing, so a miss is real
                    pass
                if len(frames) != 1:
                    res["violations"].append({
                        "mech": "missing_delivery" if not frames else "duplicate_delivery",
                        "detail": f"pub {pid} (type {p['t']} dest_mod {p['dm']} dest_host {p['dh']} size {p['size']} "
                                  f"by {p['by']}, round {p['round']}): recipient {L} (mod {cs.mod_id}) got "
                                  f"{len(frames)} copies; must={p['must']}"})
                elif frames[0].key() != tuple(p["key"]):
                    res["violations"].append({"mech": "modified_in_transit",
                                              "detail": f"pub {pid} to {L}: sent {p['key'][:12]} got {frames[0].key()[:12]}"
                                                        f" payload_equal={frames[0].payload == p['key'][12]}"})
            elif L in p["may"]:
                if len(frames) > 1:
                    res["violations"].append({"mech": "duplicate_delivery", "detail": f"pub {pid} to closing {L}: {len(frames)}"})
            else:
                neg += 1
                m = sc.model.get(cs.addr)
                if m is not None and m.connected:
                    had_nonrecipient = True
                if frames:
                    why = "out-of-range destination" if not (0 <= p["dm"] <= 200 and 0 <= p["dh"] <= 5) else "not a recipient"
                    res["violations"].append({
                        "mech": "delivered_out_of_range" if "range" in why else "unexpected_delivery",
                        "detail": f"pub {pid} (type {p['t']} dest_mod {p['dm']} dest_host {p['dh']} by {p['by']}, "
                                  f"round {p['round']}) reached {L} (mod {cs.mod_id}) {len(frames)}x: {why}; must={p['must']}"})
    C["deliveries_compared"] = pos
    C["negative_checks"] = neg
    C["rounds"] = len(sc.rounds)
    C["ops"] = sum(len(r["frames"]) for r in sc.rounds)
    for r in sc.rounds:
        if len(r["order"]) >= 2:
            res["sets"].setdefault("service_order", []).append([len(r["order"]), perm_rank(r["order"])])
    res["nontrivial"] = had_recipient and had_nonrecipient
    if case.get("n", 0) % 97 == 0:
        res["sample"] = {"steps": case["steps"][:40], "rounds": [[r["n"], r["order"]] for r in sc.rounds[:12]],
                         "pubs": [{k: p[k] for k in ("by", "t", "dm", "dh", "size", "must")} for p in list(sc.pubs.values())[:6]]}
    return res


def perm_rank(order):
    s = sorted(order)
    return "".join(str(s.index(x)) for x in order)
