"""C11 — accepted layouts are naturally aligned with only explicit padding.

The real Parser is run in-process on generated definitions under auto_pad on/off. A runtime contract
(icontract `ensure` when importable, an equivalent wrapper otherwise) on Parser.check_alignment snapshots the
struct model each time the function returns; after parse() the snapshots and the final model are compared
with an independent natural-layout function (alignment of a struct = strictest member alignment, array
alignment = element alignment). A sample of programs is also compiled to a C header and measured with gcc
(-Wpadded -Werror=padded, offsetof / sizeof / _Alignof) as a second witness.
"""
from __future__ import annotations

import logging
import os
import random
import shutil
from pathlib import Path

from vf.driver import sig_of
from vf.gen import defs as G
from vf.loaders import langs as L
from vf.rig import compiler_rig as CR

ID = "C11"
LEVEL = "exploration"
RULE = ("programs = adversarial field sequences over native widths 1/2/4/8, arrays of every length 1-9 and large, nested structs "
        "whose own alignment is 1/2/4/8, structs as array elements, field-list reuse of padded definitions, sizes 65533-65540 "
        "reached by scalar tails and arrays; each under auto_pad on and off (validate_alignment on). Non-trivial = the natural "
        "layout of some struct needs padding; distinct = hash of the YAML text + options")
ASSUMPTIONS = ["the natural-layout oracle (vf/gen/defs.py struct_layout) is independent of the parser",
               "with auto_pad off a definition that needs padding and is also too large may be rejected with either error"]
REQUIRE = {"auto_pad_off_through_file_option": 20, "structs_checked": 1500, "check_alignment_postconditions": 1500, "rejections_checked": 100, "gcc_structs_measured": 50,
           "size_limit_cases": 20, "accepted_with_auto_pad_off": 50}
CASE_TIMEOUT = 200
WIDTH_TYPES = {1: ["char", "int8", "uint8", "byte", "unsigned char"], 2: ["int16", "uint16", "short", "unsigned short"],
               4: ["int32", "uint32", "float", "int", "long", "unsigned"], 8: ["int64", "uint64", "double", "long long"]}

_CONTRACT = {"installed": False, "kind": None, "snaps": [], "count": 0}


def prepare(tier, seed, scratch):
    CR.prepare_prelude(scratch)


def install_contract():
    if _CONTRACT["installed"]:
        return
    from pyrtma.parser import Parser

    def snapshot_after_check_alignment(self, s):
        _CONTRACT["count"] += 1
        _CONTRACT["snaps"].append((s.name, [(f.name, f.type_name, f.length, f.offset, f.size, f.alignment) for f in s.fields],
                                   getattr(s, "alignment", None), s.size))
        return True

    try:
        import icontract

        class PostBroken(Exception):
            pass

        Parser.check_alignment = icontract.ensure(snapshot_after_check_alignment, error=PostBroken)(Parser.check_alignment)
        _CONTRACT["kind"] = "icontract"
    except Exception:
        orig = Parser.check_alignment

        def wrapped(self, s):
            r = orig(self, s)
            snapshot_after_check_alignment(self, s)
            return r

        Parser.check_alignment = wrapped
        _CONTRACT["kind"] = "builtin-wrapper"
    _CONTRACT["installed"] = True


# ------------------------------------------------------------------------------------------------ programs
def make_explicit(D, name, fl):
    """insert explicit char padding where the natural layout would need hidden padding"""
    D["defs"]["__tmp__"] = {"kind": "struct", "id": None, "fields": fl, "copy_of": None}
    lay = G.struct_layout(D, "__tmp__", {})
    del D["defs"]["__tmp__"]
    out, pos, k = [], 0, 0
    for f, o in zip(fl, lay["fields"]):
        if o["offset"] > pos:
            n = o["offset"] - pos
            out.append([f"xpad{k}" if k % 3 else f"padding_{k + 20}", "char", str(n), n])
            k += 1
        out.append(f)
        pos = o["offset"] + o["size"]
    if lay["size"] > pos:
        n = lay["size"] - pos
        out.append([f"xpad{k}", "char", str(n), n])
    return out


def gen_structs(rng, big=None, explicit=False):
    """single-file program; returns (yaml text, desc-like dict)"""
    D = {"aliases": {}, "defs": {}, "order": []}
    lines_s, lines_m = [], []
    nstruct = rng.randint(1, 5)
    names = []

    def fields(n, allow):
        fl, txt = [], []
        for i in range(n):
            r = rng.random()
            if allow and r < 0.3:
                t = rng.choice(allow)
            else:
                t = rng.choice(WIDTH_TYPES[rng.choice([1, 1, 2, 4, 8])])
            r = rng.random()
            if r < 0.45:
                ln = None
            elif r < 0.95:
                ln = rng.randint(1, 9)
            else:
                ln = rng.choice([16, 31, 100, 255])
            fn = f"f{i}"
            if rng.random() < 0.08:
                # names a user may well give to padding or spare fields of their own
                fn = rng.choice([f"padding_{i}", f"padding_spare{i}", f"pad_{i}", f"reserved_{i}", f"padding{i}"])
            fl.append([fn, t, None if ln is None else str(ln), ln])
        if explicit:
            fl = make_explicit(D, None, fl)
        txt = [f"      {f[0]}: {f[1]}" + ("" if f[3] is None else f"[{f[3]}]") for f in fl]
        return fl, txt

    for i in range(nstruct):
        n = f"S{i}"
        if names and rng.random() < 0.15:
            src = rng.choice(names)
            D["defs"][n] = {"kind": "struct", "id": None, "fields": D["defs"][src]["fields"], "copy_of": src}
            lines_s.append(f"  {n}:\n    fields: {src}")
        else:
            fl, txt = fields(rng.randint(1, 6), names)
            D["defs"][n] = {"kind": "struct", "id": None, "fields": fl, "copy_of": None}
            lines_s.append(f"  {n}:\n    fields:\n" + "\n".join(txt))
        names.append(n)
        D["order"].append(n)
    for i in range(rng.randint(1, 3)):
        n = f"M{i}"
        if rng.random() < 0.15:
            src = rng.choice(names)
            D["defs"][n] = {"kind": "message", "id": 2000 + i, "fields": D["defs"][src]["fields"], "copy_of": src}
            lines_m.append(f"  {n}:\n    id: {2000 + i}\n    fields: {src}")
        else:
            fl, txt = fields(rng.randint(1, 7), names)
            D["defs"][n] = {"kind": "message", "id": 2000 + i, "fields": fl, "copy_of": None}
            lines_m.append(f"  {n}:\n    id: {2000 + i}\n    fields:\n" + "\n".join(txt))
        D["order"].append(n)
    if big is not None:
        body, tail = big
        fl = [["blob", "char", str(body), body]] + [[f"t{j}", t, None if l is None else str(l), l] for j, (t, l) in enumerate(tail)]
        txt = [f"      {f[0]}: {f[1]}" + ("" if f[3] is None else f"[{f[3]}]") for f in fl]
        D["defs"]["MBIG"] = {"kind": "message", "id": 2900, "fields": fl, "copy_of": None}
        lines_m.append("  MBIG:\n    id: 2900\n    fields:\n" + "\n".join(txt))
        D["order"].append("MBIG")
    text = "struct_defs:\n" + "\n".join(lines_s) + "\nmessage_defs:\n" + "\n".join(lines_m) + "\n"
    return text, D


def gen_cases(tier, seed):
    rng = random.Random(f"c11-{seed}")
    n, ngcc, nbig, nclos = (1500, 60, 60, 120) if tier == "quick" else (120000, 4000, 2000, 6000)
    cases = []
    for i in range(n):
        cases.append({"kind": "structs", "seed": rng.getrandbits(40), "auto_pad": i % 2 == 0, "core": i % 5 == 0, "explicit": i % 4 == 1})
    for i in range(nbig):
        total = rng.choice([65533, 65534, 65535, 65536, 65537, 65540, 65528, 65530])
        tail = rng.choice([[], [("char", None)], [("int16", None)], [("int32", None)], [("double", None)], [("char", 3)], [("int16", 2), ("char", None)],
                           [("int64", None), ("char", None)]])
        tsize = sum(G.NATIVES[t][1] * (l or 1) for t, l in tail)
        cases.append({"kind": "structs", "seed": rng.getrandbits(40), "auto_pad": i % 2 == 0, "core": False, "big": [max(1, total - tsize), tail]})
    for i in range(nclos):
        cases.append({"kind": "closure", "seed": rng.getrandbits(40), "auto_pad": i % 3 != 0})
    for i in range(ngcc):
        cases.append({"kind": "gcc", "seed": rng.getrandbits(40)})
    return cases


# ------------------------------------------------------------------------------------------------ oracle comparison
def check_model(parser, D, V, C, res, auto_pad):
    """final parser model vs natural layout of the source fields"""
    cache = {}
    for name in D["order"]:
        d = D["defs"][name]
        if d["kind"] == "signal":
            continue
        obj = parser.struct_defs.get(name) or parser.message_defs.get(name)
        if obj is None:
            V.append({"mech": "definition_missing_in_model", "detail": name})
            continue
        lay = G.struct_layout(D, name, cache)
        C["structs_checked"] = C.get("structs_checked", 0) + 1
        if lay["needs_padding"]:
            res["nontrivial"] = True
        user = [f for f in obj.fields if not (f.name.startswith("padding_") and f.name.endswith("_"))]
        pads = [f for f in obj.fields if f.name.startswith("padding_") and f.name.endswith("_")]
        src = lay["src_fields"]
        if [(f.name, f.type_name, f.length) for f in user] != [(x[0], x[1], x[3]) for x in src]:
            V.append({"mech": "user_field_changed", "detail": f"{name}: source fields {[(x[0], x[1], x[3]) for x in src]} became "
                                                              f"{[(f.name, f.type_name, f.length) for f in user]}"})
            continue
        for f in pads:
            if f.type_name != "char":
                V.append({"mech": "padding_not_char", "detail": f"{name}.{f.name} has type {f.type_name}"})
        if pads and not auto_pad:
            V.append({"mech": "padding_inserted_with_auto_pad_off", "detail": f"{name}: {[f.name for f in pads]}"})
        # offsets: natural
        for f, o in zip(user, lay["fields"]):
            if f.offset != o["offset"]:
                V.append({"mech": "offset_not_natural", "detail": f"{name}.{f.name} ({f.type_name}[{f.length}]): parser offset {f.offset}, natural offset "
                                                                  f"{o['offset']} (alignment {o['align']})"})
                break
            if o["offset"] % o["align"]:
                V.append({"mech": "oracle_self_check", "detail": "natural offset not aligned"})
        total = sum(f.size for f in obj.fields)
        if obj.size != lay["size"] or total != lay["size"]:
            V.append({"mech": "size_not_natural", "detail": f"{name}: parser size {obj.size} (sum of fields {total}), natural size {lay['size']} "
                                                            f"(strictest alignment {lay['align']})"})
        # contiguity: explicit fields cover the struct without holes
        pos = 0
        for f in obj.fields:
            if f.offset not in (-1, pos) and f in user:
                V.append({"mech": "hidden_padding", "detail": f"{name}.{f.name} at {f.offset} but previous fields end at {pos}"})
                break
            pos += f.size
        if lay["size"] % lay["align"]:
            V.append({"mech": "oracle_self_check", "detail": "size not multiple of alignment"})
        if getattr(obj, "alignment", lay["align"]) != lay["align"]:
            V.append({"mech": "struct_alignment_wrong", "detail": f"{name}: parser alignment {obj.alignment}, strictest member alignment {lay['align']}"})


def expected_outcome(D, auto_pad):
    """'accept' | set of acceptable error class names"""
    cache = {}
    errs = set()
    for name in D["order"]:
        d = D["defs"][name]
        if d["kind"] == "signal":
            continue
        lay = G.struct_layout(D, name, cache)
        if not auto_pad and lay["needs_padding"]:
            errs.add("AlignmentError")
            # the first failing definition stops the parse; later ones are not reached
            if lay["size"] > 65535:
                errs.add("InvalidMessageSize")
            return errs
        if lay["size"] > 65535:
            errs.add("InvalidMessageSize")
            return errs
        if not auto_pad and sum(f["size"] for f in lay["fields"]) > 65535:
            errs.add("InvalidMessageSize")
            return errs
    return "accept"


def run_case(case, tier):
    from pyrtma.parser import Parser, ParserError
    install_contract()
    res = {"violations": [], "counters": {}, "sets": {}, "sig": None, "nontrivial": False}
    V, C = res["violations"], res["counters"]
    rng = random.Random(case["seed"])
    work = Path(os.environ["VF_SCRATCH"]) / f"c11-{os.getpid()}-{case['n']}"
    try:
        if case["kind"] == "gcc":
            prog = G.gen_program(case["seed"], allow_known=False, heavy_align=True, max_files=2)
            res["sig"] = sig_of(prog["files"])
            b = CR.build(prog, work, langs=("c",))
            if b.rc != 0:
                V.append({"mech": "compile_failed:" + str(b.failure), "detail": b.text[-300:]})
                return res
            c = L.load_c(b.out / "out.h", CR.prelude_path(), work)
            if not c.get("ok"):
                V.append({"mech": "gcc_rejects_header" + (":hidden_padding" if c.get("padded") else ""), "detail": str(c.get("error"))[:600]})
                return res
            cache = {}
            for name in prog["desc"]["order"]:
                d = prog["desc"]["defs"][name]
                if d["kind"] == "signal":
                    continue
                cname = name if d["kind"] == "struct" else "MDF_" + name
                lay = G.struct_layout(prog["desc"], name, cache)
                cs = c["structs"].get(cname)
                C["gcc_structs_measured"] = C.get("gcc_structs_measured", 0) + 1
                if lay["needs_padding"]:
                    res["nontrivial"] = True
                if cs is None:
                    V.append({"mech": "definition_missing:c", "detail": cname})
                    continue
                if cs["size"] != lay["size"] or cs["align"] != lay["align"]:
                    V.append({"mech": "gcc_size_or_alignment_differs", "detail": f"{cname}: gcc sizeof/_Alignof {cs['size']}/{cs['align']}, natural {lay['size']}/{lay['align']}"})
                cu = [f for f in cs["fields"] if not f["name"].startswith("padding_")]
                for f, o in zip(cu, lay["fields"]):
                    if (f["name"], f["offset"]) != (o["name"], o["offset"]):
                        V.append({"mech": "gcc_offset_differs", "detail": f"{cname}.{f['name']}: gcc offsetof {f['offset']}, natural {o['offset']} ({o['name']})"})
                        break
            return res
        if case["kind"] == "closure":
            prog = G.gen_program(case["seed"], allow_known=False, heavy_align=True)
            D = prog["desc"]
            root = G.write_closure(prog, work)
            core = True
            res["sig"] = sig_of([prog["files"], case["auto_pad"]])
        else:
            text, D = gen_structs(rng, case.get("big"), explicit=bool(case.get("explicit")))
            work.mkdir(parents=True, exist_ok=True)
            root = work / "defs.yaml"
            root.write_text(text)
            core = case["core"]
            res["sig"] = sig_of([text, case["auto_pad"], core])
            if case.get("big"):
                C["size_limit_cases"] = 1
        n0 = _CONTRACT["count"]
        _CONTRACT["snaps"].clear()
        p = Parser(validate_alignment=True, auto_pad=case["auto_pad"], import_coredefs=core)
        p.logger.setLevel(logging.CRITICAL)
        for h in list(p.logger.handlers):
            p.logger.removeHandler(h)
        exp = expected_outcome(D, case["auto_pad"])
        if case["kind"] != "closure" and case.get("n", 0) % 5 == 0:
            # the same Parser object first fails on an earlier version of the file (same definition names, other
            # native types behind them, and a typo at the end); what it then says about the real file must not differ
            import re as _re
            swap = {"int16": "int64", "int64": "int16", "int32": "int8", "int8": "int32", "double": "float", "float": "double",
                    "uint16": "uint64", "uint64": "uint16", "char": "int32", "uint8": "double"}
            poison = _re.sub(r"(?m)^(\s+\w+: )(u?int(?:8|16|32|64)|float|double|char)\b", lambda m: m.group(1) + swap.get(m.group(2), m.group(2)),
                             root.read_text())
            last = [ln for ln in poison.splitlines() if ln and not ln.startswith(" ")][-1].rstrip(":")
            poison = poison.rstrip("\n") + "\n  ZZ_TYPO:\n" + ("    id: 9876\n" if last == "message_defs" else "") + "    fields:\n      oops: no_such_type_at_all\n"
            if last not in ("message_defs", "struct_defs"):
                poison += "struct_defs:\n  ZZ_TYPO2:\n    fields:\n      oops: no_such_type_at_all\n"
            pz = work / "earlier_version.yaml"
            pz.write_text(poison)
            failed = False
            try:
                p.parse(pz)
            except BaseException:
                failed = True
            if not failed:
                # (only a failed parse leaves a re-usable object: start over with a fresh one)
                p = Parser(validate_alignment=True, auto_pad=case["auto_pad"], import_coredefs=core)
                p.logger.setLevel(logging.CRITICAL)
                for h in list(p.logger.handlers):
                    p.logger.removeHandler(h)
            else:
                C["parser_objects_reused_after_failure"] = C.get("parser_objects_reused_after_failure", 0) + 1
            _CONTRACT["snaps"].clear()
            n0 = _CONTRACT["count"]
        try:
            p.parse(root)
            err = None
        except ParserError as e:
            err = type(e).__name__
        except AssertionError as e:
            err = "AssertionError"
            V.append({"mech": "internal_assertion", "detail": str(e)[:300]})
        C["check_alignment_postconditions"] = _CONTRACT["count"] - n0
        res["sets"]["contract_kind"] = [_CONTRACT["kind"]]
        if err is None:
            if exp != "accept":
                big = "InvalidMessageSize" in exp and "AlignmentError" not in exp
                V.append({"mech": "oversize_definition_accepted" if big else "accepted_although_padding_needed",
                          "detail": f"auto_pad={case['auto_pad']}: accepted, oracle expects {sorted(exp)}; {describe(D)}"})
            else:
                if not case["auto_pad"]:
                    C["accepted_with_auto_pad_off"] = C.get("accepted_with_auto_pad_off", 0) + 1
                check_model(p, D, V, C, res, case["auto_pad"])
                # the snapshots taken when check_alignment returned must already satisfy the alignment facts
                for sname, fl, al, size in _CONTRACT["snaps"]:
                    for (fn, tn, ln, off, sz, fal) in fl:
                        if off >= 0 and fal and off % fal:
                            V.append({"mech": "postcondition:field_misaligned", "detail": f"{sname}.{fn} offset {off} alignment {fal} when check_alignment returned"})
                    if al and size % al:
                        V.append({"mech": "postcondition:size_not_multiple_of_alignment", "detail": f"{sname} size {size} alignment {al}"})
        else:
            C["rejections_checked"] = C.get("rejections_checked", 0) + 1
            if exp == "accept":
                V.append({"mech": f"rejected_although_valid:{err}", "detail": f"auto_pad={case['auto_pad']}: {err} although the natural layout needs no padding "
                                                                              f"and fits: {describe(D)}"})
            elif err not in exp:
                V.append({"mech": f"wrong_rejection:{err}", "detail": f"expected one of {sorted(exp)}"})
            res["nontrivial"] = True
        if case["kind"] != "closure" and not case["auto_pad"] and (case["n"] % 40 == 1 or (err == "AlignmentError" and case["n"] % 6 == 1)):
            # the option written in the file itself (compiler_options: AUTO_PAD: false) and the command line as the entry
            # point: the verdict must be the one the Parser object gave with auto_pad=False
            import subprocess
            froot = work / "with_option.yaml"
            froot.write_text("compiler_options:\n  AUTO_PAD: false\n" + ("  IMPORT_COREDEFS: false\n" if not core else "") + root.read_text())
            (work / "cliout").mkdir(exist_ok=True)
            r = subprocess.run(["/venv/bin/python", "-m", "pyrtma.compile", "-i", str(froot), "-o", str(work / "cliout"), "--py"], stdin=subprocess.DEVNULL,
                               capture_output=True, text=True, timeout=120)
            C["auto_pad_off_through_file_option"] = C.get("auto_pad_off_through_file_option", 0) + 1
            accepted = r.returncode == 0
            if accepted != (err is None):
                V.append({"mech": "file_option_auto_pad_off_ignored" if accepted else "file_option_changes_verdict",
                          "detail": f"Parser(auto_pad=False) said {err or 'accepted'}; python -m pyrtma.compile on the same definitions with "
                                    f"compiler_options AUTO_PAD: false exited {r.returncode}: {(r.stdout + r.stderr)[-200:]}"})
        res["sets"]["option"] = [[case["auto_pad"], core]]
        if case["n"] % 97 == 0:
            res["sample"] = {"case": {k: case[k] for k in case if k != "n"}, "defs": describe(D)[:600], "outcome": err or "accepted"}
        return res
    finally:
        shutil.rmtree(work, ignore_errors=True)


def describe(D):
    out = []
    for n in D["order"]:
        d = D["defs"][n]
        out.append(f"{n}: " + (f"copy of {d['copy_of']}" if d.get("copy_of") else ", ".join(f"{f[1]}" + (f"[{f[3]}]" if f[3] else "") for f in d["fields"])))
    return "; ".join(out)[:900]
