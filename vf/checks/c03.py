"""C03 — no client can take the manager down.

Fault enumeration against the real run() loop (stepped, in-process, with a virtual clock that is advanced past
every timer after each fault so statistics code runs over what was counted) plus a black-box stratum that
runs the manager as a separate process through its own CLI with the real clock and real select.
Monitors: liveness of the run() thread / process (uncaught exception captured with traceback), and bounded
progress: a bystander pair connected before the fault and a fresh pair connected after it must complete
connect -> ACK -> subscribe -> ACK -> publish -> receive within 64 manager rounds.
"""
from __future__ import annotations

import itertools
import math
import os
import random
import resource
import socket
import struct
import subprocess
import sys
import time

from vf.rig import wire as W
from vf.rig.manager_rig import ManagerRig
from vf.rig.scenario import Scenario, stream_checks
from vf.models.router import ALL
from vf.driver import sig_of

ID = "C03"
LEVEL = "fault_enumeration"
XDEV = True
RULE = ("catalogue of client faults, each applied to an otherwise valid session at stages {accepted, connected, subscribed, "
        "sub-all, logger}: (i) every header field at each boundary of its C type on data and control frames; (ii) msg_type "
        "over int32 boundaries, +-10000/10001, ALL sentinel, every id 0..99; (iii) declared length over {-2^31,-1,0,1,65535,"
        "65536,2^20,2^20+1,2^31-1} with matching / short-then-close / absent payload; (iv) control payload boundaries and "
        "name bytes (non-ASCII, 32 non-NUL, UTF-8, embedded NUL), zero-length control frames; (v) FIN and RST after every "
        "byte offset of 11 frame kinds; (vi) pairs of faults in one round under every service order incl. write-side "
        "discovery; (vii) connection floods (dynamic ids and plain sockets) past the ACTIVE_CLIENTS timer; (viii) the same "
        "faults against `python -m pyrtma.manager` as a separate process. Non-trivial = the fault bytes reached the "
        "manager and the probes ran; distinct = distinct fault descriptor")
ASSUMPTIONS = ["no case withholds the rest of a frame while staying connected; every harness socket is drained "
               "(the documented stall is outside the property)",
               "the harness stays below 1024 descriptors so select()'s FD_SETSIZE is not what is tested",
               "a step that does not complete in 20 s with no withheld frame is reported as a stall (violation), a worker "
               "watchdog firing is inconclusive"]
REQUIRE = {"faults_applied": 300, "probes_completed": 300, "fault_kinds": 6, "blackbox_faults": 10}
CASE_TIMEOUT = 240
T = 1234

I32 = [-2 ** 31, -1, 0, 1, 2 ** 31 - 1]
I16 = [-2 ** 15, -1, 0, 1, 2 ** 15 - 1]
U32 = [0, 1, 2 ** 31, 2 ** 32 - 1]
F64 = [0.0, -0.0, 1.0, float("inf"), float("-inf"), float("nan"), 1.7976931348623157e308, 5e-324]
HFIELDS = [("msg_count", I32), ("send_time", F64), ("recv_time", F64), ("src_host", I16), ("src_mod", I16),
           ("dest_host", I16), ("dest_mod", I16), ("remaining", I32), ("is_dynamic", I32), ("reserved", U32)]
NAMES = [b"", b"a" * 31, b"b" * 32, b"\xff" * 32, b"\xff", "né".encode(), "名前".encode(), b"ab\0cd", b"\0" * 32,
         b"\x80abc", b"ok\xfe", bytes(range(1, 33)),
         # printable names that mean something to a formatter or a console renderer
         b"[/x]", b"rig[/b]", b"[bold]x", b"[/]", b"%s%d%(x)s %", b"{0}{name}{", b"[link=x]y"]
STAGES = ["accepted", "connected", "subscribed", "suball", "logger"]


def base_frames():
    """the 11 protocol frame kinds, as (name, msg_type, payload)"""
    return [("data8", T, b"\x11" * 8), ("data0", T, b""), ("connect", W.MT_CONNECT, W.p_connect(0, 0)),
            ("connect_v2", W.MT_CONNECT_V2, W.p_connect_v2(0, 0, 0, 30, 7, b"off")), ("disconnect", W.MT_DISCONNECT, b""),
            ("subscribe", W.MT_SUBSCRIBE, W.p_sub(T)), ("unsubscribe", W.MT_UNSUBSCRIBE, W.p_sub(T)),
            ("pause", W.MT_PAUSE, W.p_sub(T)), ("resume", W.MT_RESUME, W.p_sub(T)),
            ("ready", W.MT_MODULE_READY, struct.pack("<i", 5)), ("set_name", W.MT_CLIENT_SET_NAME, struct.pack("<32s", b"nm"))]


def fr(t, payload=b"", tc=False, **kw):
    kw.setdefault("src_mod", 30)
    return W.frame_bytes(t, payload, timecode=tc, **kw)


# ----------------------------------------------------------------------------------------------- catalogue
def catalogue(tier, rng):
    """yields fault descriptors: {kind, stage, raw:[(hex, nframes)], close: None|fin|rst, note}"""
    out = []

    def add(kind, stage, raws, close=None, note="", **kw):
        out.append(dict(kind=kind, stage=stage, raws=[[r.hex(), n] for r, n in raws], close=close, note=note, **kw))

    quick = tier == "quick"
    stages_for = lambda i: [STAGES[i % len(STAGES)]] if quick else STAGES
    n = 0
    # (i) header fields at boundaries
    for name, mt, payload in base_frames():
        for fld, vals in HFIELDS:
            for v in vals:
                n += 1
                if quick and n % 3:
                    continue
                for st in stages_for(n):
                    add("hdr_field", st, [(fr(mt, payload, **{fld: v}), 1)], note=f"{name}.{fld}={v}")
    # (ii) msg_type values
    types = I32 + [9999, 10000, 10001, -10000, -10001, -9999, ALL, ALL - 1, 65535, 65536] + list(range(0, 100))
    for i, t in enumerate(types):
        for plen in (0, 8):
            for st in stages_for(i):
                add("msg_type", st, [(fr(t, b"\x22" * plen), 1)], note=f"type={t} len={plen}")
    # (iii) declared lengths
    for i, ln in enumerate([-2 ** 31, -1, 0, 1, 65535, 65536, 2 ** 20, 2 ** 20 + 1, 2 ** 31 - 1, -2, 2 ** 20 - 1]):
        for mt in (T, W.MT_SUBSCRIBE, W.MT_CONNECT_V2):
            for st in stages_for(i):
                hdr = W.pack_header(mt, nbytes=ln, src_mod=30)
                add("length", st, [(hdr, 0)], close="fin", note=f"declared {ln} absent payload, type {mt}")
                add("length", st, [(hdr + b"\x33" * 3, 0)], close="rst", note=f"declared {ln} short payload, type {mt}")
                if 0 <= ln <= 2 ** 20 + 1:
                    add("length", st, [(hdr + b"\x33" * ln, 1)], note=f"declared {ln} matching payload, type {mt}")
                elif ln < 0:
                    add("length", st, [(hdr, 1)], note=f"declared {ln} (negative), nothing follows, type {mt}")
    # (iv) control payloads
    k = 0
    for lg, dm, am, mid, pid in itertools.product(I16, [0, 1, -1], [0, 1, 2 ** 15 - 1], I16 + [99, 100, 101, 199, 200, 201], [0, -1, 2 ** 31 - 1]):
        k += 1
        if k % (37 if quick else 5):
            continue
        add("connect_v2_fields", "accepted", [(fr(W.MT_CONNECT_V2, W.p_connect_v2(lg, dm, am, mid, pid, b"x"), src_mod=mid), 1)],
            note=f"logger={lg} daemon={dm} allow_multiple={am} mod_id={mid} pid={pid}")
    for lg, dm, src in itertools.product(I16, [0, 1], I16 + [100, 101, 200]):
        add("connect_v1_fields", "accepted", [(fr(W.MT_CONNECT, W.p_connect(lg, dm), src_mod=src), 1)], note=f"logger={lg} daemon={dm} src={src}")
    for nm in NAMES:
        # (the named client goes on to subscribe, unsubscribe and publish: whatever mentions its name has to cope)
        follow = [(fr(W.MT_SUBSCRIBE, W.p_sub(T)), 1), (fr(W.MT_UNSUBSCRIBE, W.p_sub(T)), 1), (fr(T, b"\x11" * 8), 1)]
        for mid in (0, 31):
            add("connect_v2_name", "accepted", [(fr(W.MT_CONNECT_V2, W.p_connect_v2(0, 0, 0, mid, 1, nm), src_mod=mid), 1),
                                                (fr(W.MT_CONNECT, W.p_connect(0, 0), src_mod=mid), 1)] + follow, note=f"name={nm!r} mod_id={mid}")
        for st in ("connected", "subscribed", "logger"):
            add("set_name", st, [(fr(W.MT_CLIENT_SET_NAME, struct.pack("<32s", nm)), 1)] + follow, note=f"name={nm!r}")
    for t in I32 + [ALL, 9999, 10000, -10000]:
        for mt in (W.MT_SUBSCRIBE, W.MT_UNSUBSCRIBE, W.MT_PAUSE, W.MT_RESUME):
            for st in ("connected", "suball"):
                add("sub_boundary", st, [(fr(mt, W.p_sub(t)), 1), (fr(t if t not in W.CONTROL_TYPES else T, b""), 1)], note=f"ctl {mt} of type {t}")
    for name, mt, payload in base_frames():
        for st in stages_for(mt):
            add("zero_length_control", st, [(fr(mt, b""), 1)], note=f"{name} with no payload")
            add("garbage", st, [(bytes(rng.getrandbits(8) for _ in range(48)), 0)], close="fin", note="48 random bytes then close")
    # (v) disconnect at every byte offset of every frame kind
    for name, mt, payload in base_frames():
        data = fr(mt, payload)
        offs = range(0, len(data) + 1) if not quick else (range(0, len(data) + 1) if name in ("data8", "subscribe", "connect_v2") else range(0, len(data) + 1, 7))
        for off in offs:
            for how in ("fin", "rst"):
                st = "accepted" if name in ("connect", "connect_v2") else STAGES[1 + (off + len(name)) % 4]
                add("cut_at_offset", st, [(data[:off], 1 if off == len(data) else 0)], close=how, note=f"{name} cut after {off}/{len(data)} bytes, {how}")
    # (v'') a complete, valid handshake immediately followed by close / reset (the answer can no longer be delivered)
    for how in ("fin", "rst"):
        for mid in (30, 0):
            add("hello_then_close", "accepted", [(fr(W.MT_CONNECT, W.p_connect(0, 0), src_mod=mid), 1)], close=how, note=f"CONNECT (id {mid}) then {how}")
            add("hello_then_close", "accepted", [(fr(W.MT_CONNECT_V2, W.p_connect_v2(0, 0, 0, mid, 77, b"late"), src_mod=mid), 1),
                                                 (fr(W.MT_CONNECT, W.p_connect(0, 0), src_mod=mid), 1)], close=how, note=f"CONNECT_V2+CONNECT (id {mid}) then {how}")
            add("hello_then_close", "accepted", [(fr(W.MT_CONNECT_V2, W.p_connect_v2(1, 0, 0, mid, 77, b"latelog"), src_mod=mid), 1)], close=how,
                note=f"CONNECT_V2 as logger (id {mid}) then {how}")
    # (v') a subscriber that died silently (reset) is first discovered by a *periodic* manager message
    for st in ("subscribed", "suball", "logger"):
        for adv in (0.95, 1.1, 5.5):
            for how in ("rst", "fin"):
                add("dead_at_timer", st, [], close=how, note=f"{how}, then only the timer fires (adv {adv})", timer_adv=adv)
                add("dead_at_timer", st, [], close=how, note=f"{how}, then only the timer fires (adv {adv}); TIMING_MESSAGE disabled (-T)",
                    timer_adv=adv, notiming=True)
    return out


SIMPLE = ["rst", "fin", "partial_rst", "badlen_close", "neg_len", "nonascii_name", "write_side", "dead_logger", "huge_len", "big_type",
          "slow_sub", "dead_suball"]


def simple_fault(kind):
    """(stage, raws, close, excluded_from_round)"""
    if kind == "rst":
        return "subscribed", [], "rst", False
    if kind == "fin":
        return "suball", [], "fin", False
    if kind == "partial_rst":
        return "connected", [(fr(T, b"\x44" * 8)[:30], 0)], "rst", False
    if kind == "badlen_close":
        return "connected", [(W.pack_header(T, nbytes=500, src_mod=30) + b"zz", 0)], "fin", False
    if kind == "neg_len":
        return "connected", [(W.pack_header(T, nbytes=-5, src_mod=30), 1)], None, False
    if kind == "huge_len":
        return "subscribed", [(W.pack_header(T, nbytes=2 ** 20 + 7, src_mod=30), 1)], "fin", False
    if kind == "nonascii_name":
        return "connected", [(fr(W.MT_CLIENT_SET_NAME, struct.pack("<32s", b"\xff\xfe")), 1)], None, False
    if kind == "write_side":
        return "subscribed", [], "rst", True
    if kind == "dead_logger":
        return "logger", [], "rst", True
    if kind == "big_type":
        return "connected", [(fr(2 ** 31 - 2, b""), 1)], None, False
    if kind == "slow_sub":
        # a subscriber that has fallen behind: alive, silent, and not in the round's writability snapshot
        return "subscribed", [], None, True
    if kind == "dead_suball":
        # a subscriber of everything (failure notices included) whose reset the manager finds on the write side
        return "suball", [], "rst", True
    raise ValueError(kind)


def gen_cases(tier, seed):
    rng = random.Random(f"c03-{seed}")
    cat = catalogue(tier, rng)
    cases = []
    for i, f in enumerate(cat):
        whole = all(n >= 1 for _, n in f["raws"]) and f["kind"] != "garbage"
        cases.append({"mode": "single", "fault": f, "tc": i % 9 == 8 and whole, "loud": i % 11 == 10, "offender_first": i % 4 == 1})
        dup = f["stage"] == "accepted" and (tier == "thorough" or i % 3 == 0 or (whole and f["close"]) or f["kind"] == "connect_v2_name")
        if tier == "quick" and f["kind"] == "length":
            dup = True      # (the quick tier draws one stage per fault: these are repeated for the pre-handshake stage)
        if f["kind"] in ("connect_v2_name", "set_name"):
            # DEBUG-level manager with its console handler on (rendering into the null device)
            cases.append({"mode": "single", "fault": f, "tc": False, "loud": 3, "offender_first": i % 2 == 0})
        if dup:
            # the same fault from a peer that already receives everything, the manager publishing its own log messages
            cases.append({"mode": "single", "fault": dict(f, stage="presub_all"), "tc": False, "loud": True,
                          "offender_first": i % 2 == 0 or f["kind"] in ("hello_then_close", "length")})
    # (vi) pairs x permutations
    pairs = [(a, b) for a in SIMPLE for b in SIMPLE]
    rng.shuffle(pairs)
    if tier == "quick":
        must = [("slow_sub", x) for x in ("dead_suball", "fin", "rst", "write_side", "dead_logger")] + [("dead_suball", "slow_sub"), ("fin", "slow_sub")]
        pairs = pairs[:30] + [p for p in must if p not in pairs[:30]]
    for a, b in pairs:
        nready = 1 + sum(0 if simple_fault(x)[3] else 1 for x in (a, b))
        for p in range(math.factorial(nready)):
            for trig in (("pub", "ctl") if tier == "thorough" else (rng.choice(["pub", "ctl"]),)):
                cases.append({"mode": "pair", "a": a, "b": b, "perm": p, "trigger": trig, "tc": False})
    # (vi') structure-aware fuzz: long streams of well-framed frames with random header fields, types and payloads
    nfuzz = 40 if tier == "quick" else 6000
    for i in range(nfuzz):
        cases.append({"mode": "fuzz", "seed": rng.getrandbits(40), "stage": STAGES[i % len(STAGES)], "nframes": rng.choice([20, 60, 150]), "tc": i % 7 == 6})
    # (vii) floods
    floods = [("dyn", 50), ("dyn", 101), ("plain", 257)] if tier == "quick" else \
        [("dyn", 50), ("dyn", 101), ("dyn", 150), ("plain", 257), ("plain", 300), ("plain", 400), ("v1dyn", 120)]
    for kind, n in floods:
        cases.append({"mode": "flood", "kind": kind, "count": n, "tc": False, "timeout": 200})
    # (viii) black box
    bb = [f for f in cat if f["kind"] in ("msg_type", "length", "connect_v2_name", "set_name", "cut_at_offset", "zero_length_control", "hdr_field")]
    rng.shuffle(bb)
    nb, per = (3, 24) if tier == "quick" else (32, 120)
    for i in range(nb):
        cases.append({"mode": "blackbox", "faults": bb[i * per:(i + 1) * per], "flood": [0, 110, 270][i % 3], "timeout": 230})
    # (ix) churn: well over a thousand short-lived connections, most of them dropped or refused before they complete
    # the handshake, never more than a few dozen open at a time (a long-running manager sees this over its lifetime)
    for i in range(1 if tier == "quick" else 6):
        cases.append({"mode": "churn", "seed": rng.getrandbits(32), "count": 1400 if tier == "quick" else rng.choice([1400, 2500, 4000]),
                      "batch": rng.choice([20, 40]), "timeout": 280})
    return cases


# ----------------------------------------------------------------------------------------------- in-process cases
def stage_steps(L, stage, mod_id):
    st = [["open", L]]
    if stage == "accepted":
        return st + [["drain"]]
    if stage == "presub_all":
        # subscribed to everything (also to the manager's own log messages) before any CONNECT
        return st + [["drain"], ["sub", L, ALL], ["drain"]]
    st.append(["hello", L, {"mod_id": mod_id, "logger": int(stage == "logger")}])
    st.append(["drain"])
    if stage == "subscribed":
        st.append(["sub", L, T])
    if stage in ("suball", "logger"):
        st.append(["sub", L, ALL])
    st.append(["drain"])
    return st


PRE = [["open", "BP"], ["hello", "BP", {"mod_id": 90}], ["open", "BS"], ["hello", "BS", {"mod_id": 91}], ["open", "BA"],
       ["hello", "BA", {"mod_id": 92}], ["drain"], ["sub", "BS", T], ["sub", "BA", ALL], ["drain"]]
TIMERS = [["round", {"adv": 0.95}], ["round", {"adv": 1.1}], ["round", {"adv": 5.5}], ["round", {"adv": 0.001}]]
PROBE = [["pub", "BP", T, 0, 0, 8], ["open", "FP"], ["hello", "FP", {"mod_id": 80}], ["open", "FS"], ["hello", "FS", {"mod_id": 81}],
         ["drain", {"adv": 0.001}], ["sub", "FS", T], ["drain"], ["pub", "FP", T, 0, 0, 8], ["pub", "FP", T, "@FS", 0, 0],
         ["drain", {"adv": 0.001}]]


def tcfix(hexdata, tc):
    """for a timecode manager the plain-header fault bytes get the two extra header words inserted"""
    if not tc:
        return hexdata
    b = bytes.fromhex(hexdata)
    if len(b) < 48:
        return hexdata
    return (b[:48] + b"\0" * 8 + b[48:]).hex()


def run_case(case, tier):
    if case["mode"] == "blackbox":
        return run_blackbox(case)
    if case["mode"] == "churn":
        return run_churn(case)
    if case["mode"] == "flood":
        return run_flood(case)
    tc = bool(case.get("tc"))
    rig = ManagerRig(stepped=True, timecode=tc, loud=(3 if case.get("loud") == 3 else bool(case.get("loud"))),
                     send_msg_timing=not case.get("fault", {}).get("notiming", False))
    try:
        sc = Scenario(rig, 0)
        sc.max_drain = 64
        steps = list(PRE)
        if case["mode"] == "fuzz":
            sc.max_drain = case["nframes"] + 64   # one frame per connection per round: the stream itself needs nframes rounds
            r = random.Random(case["seed"])
            steps += stage_steps("O", case["stage"], 30)
            pool_t = list(W.CONTROL_TYPES) * 3 + list(range(0, 100)) + [9999, 10000, -1, 2 ** 31 - 1, -2 ** 31, ALL, T, T]
            for k in range(case["nframes"]):
                t = r.choice(pool_t)
                ln = r.choice([0, 0, 4, 4, 8, 44, 32, 80, r.randint(0, 300), 1024])
                payload = bytes(r.getrandbits(8) for _ in range(ln)) if r.random() < 0.7 else struct.pack("<i", r.choice([T, ALL, 0, -1, 30, 2 ** 31 - 1])) .ljust(ln, b"\0")[:ln]
                if t == W.MT_DISCONNECT and r.random() < 0.8:
                    t = T
                if t == W.MT_CONNECT_V2 and len(payload) >= 8:
                    # keep the requested id away from the ids the bystander / fresh probe clients use (80, 81, 90-92)
                    payload = payload[:6] + struct.pack("<h", r.choice([0, 1, 30, 99, 100, 101, -1, 32767, 200])) + payload[8:]
                hdr = dict(msg_count=r.choice(I32), send_time=r.choice(F64), recv_time=r.choice(F64), src_host=r.choice(I16), src_mod=r.choice(I16 + [30]),
                           dest_host=r.choice(I16 + [0, 0, 0]), dest_mod=r.choice(I16 + [0, 0, 90, 91]), remaining=r.choice(I32), is_dynamic=r.choice(I32),
                           reserved=r.choice(U32))
                steps.append(["raw", "O", W.frame_bytes(t, payload, timecode=tc, **hdr).hex(), 1, f"fuzz frame type {t} len {ln}"])
                if r.random() < 0.2:
                    steps.append(["round", {"seed": r.getrandbits(30), "adv": r.choice([0.001, 0.5, 1.2])}])
            if r.random() < 0.5:
                steps += [["close", "O", r.choice(["fin", "rst"])]]
            steps += [["pub", "BP", T, 0, 0, 8], ["drain", {"adv": 0.001}]]
            case = dict(case, fault={"kind": "fuzz", "stage": case["stage"], "note": f"{case['nframes']} random well-framed frames"}, mode="single")
        elif case["mode"] == "single":
            f = case["fault"]
            steps += stage_steps("O", f["stage"], 30)
            for hx, n in f["raws"]:
                steps.append(["raw", "O", tcfix(hx, tc), n, f["note"]])
            if f.get("timer_adv") and f["stage"] == "subscribed":
                steps += [["sub", "O", W.MT_CLIENT_INFO], ["sub", "O", W.MT_TIMING], ["sub", "O", W.MT_MESSAGE_TRAFFIC], ["drain"]]
            if f.get("timer_adv"):
                steps.append(["round", {"only": [], "adv": 1.5}])  # flush the statistics gathered so far
            if f["close"]:
                steps += [["close", "O", f["close"]], ["await_closed", "O"]]
            if f.get("timer_adv"):
                # one harmless control frame makes the round non-idle; the dead subscriber is then first touched by
                # whichever periodic message is due
                steps += [["sub", "BP", 556], ["round", {"only": ["BP"], "adv": f["timer_adv"]}], ["round", {"only": [], "adv": 0.001}]]
            if case.get("offender_first"):
                # the offender's queued frames are read before anybody publishes (otherwise a publication usually
                # discovers the dead connection on the write side and its last frames are never looked at)
                steps.append(["round", {"only": ["O"], "adv": 0.001}])
            steps += [["pub", "BP", T, 0, 0, 8], ["drain", {"adv": 0.001}]]
        else:
            labels = ["BP"]
            leave = []
            slow = [L for L, kind in (("O1", case["a"]), ("O2", case["b"])) if kind == "slow_sub"]
            for L, kind, mid in (("O1", case["a"], 30), ("O2", case["b"], 31)):
                stg, raws, close, excl = simple_fault(kind)
                steps += stage_steps(L, stg, mid)
                for r, n in raws:
                    leave.append(["raw", L, tcfix(r.hex(), tc), n, kind])
                if close:
                    leave += [["close", L, close], ["await_closed", L]]
                if not excl:
                    labels.append(L)
            steps += leave
            steps.append(["pub", "BP", T, 0, 0, 8] if case["trigger"] == "pub" else ["sub", "BP", 555])
            perms = list(itertools.permutations(labels))
            steps.append(["round", {"only": labels, "order": list(perms[case["perm"] % len(perms)]), "adv": 0.001, "nw": slow}])
            steps.append(["drain", {"adv": 0.001}])
        steps += TIMERS + PROBE + TIMERS
        # offenders' routing state is unknown to the model: everything about them is don't-care
        sc.run(steps[:len(PRE)])
        for st in steps[len(PRE):]:
            if sc.crashed or sc.hung:
                break
            if st[0] == "round":
                sc.round(st[1])
            elif st[0] == "drain":
                sc.drain(st[1] if len(st) > 1 else None)
            else:
                sc.issue(st)
            for L in ("O", "O1", "O2"):
                if L in sc.cl:
                    m = sc.model.get(sc.cl[L].addr)
                    if m:
                        m.fin = True
        if not (sc.crashed or sc.hung):
            rig.settle()
        return judge(sc, case)
    finally:
        rig.close()


def crash_mech(tb):
    if not tb:
        return "stalled"
    lines = tb.strip().splitlines()
    exc = lines[-1].split(":")[0].strip()
    fn = "?"
    for ln in reversed(lines):
        if "/pyrtma/" in ln and ", in " in ln:
            fn = ln.rsplit(", in ", 1)[1].strip()
            break
    return f"{exc}@{fn}"


def judge(sc, case):
    desc = {k: case[k] for k in case if k not in ("n",)}
    res = {"violations": [], "counters": {}, "sets": {}, "sig": sig_of(desc), "nontrivial": False}
    V, C = res["violations"], res["counters"]
    kind = case["fault"]["kind"] if case["mode"] == "single" else f"pair:{case['a']}+{case['b']}"
    res["sets"]["fault_kinds"] = [case["fault"]["kind"] if case["mode"] == "single" else "pair"]
    res["sets"]["fault_x_stage"] = [[kind, case["fault"]["stage"]]] if case["mode"] == "single" else [[kind, case["perm"]]]
    C["faults_applied"] = 1
    if sc.crashed:
        V.append({"mech": "manager_died:" + crash_mech(sc.rig.crash), "detail": f"fault {kind} ({case.get('fault', {}).get('note', '')}): " + (sc.rig.crash or "")[-900:]})
        return res
    if sc.hung:
        V.append({"mech": "manager_stalled", "detail": f"fault {kind}: a granted round did not complete within 20 s although no client withholds data"})
        return res
    if sc.problems:
        res["inconclusive"] = "; ".join(sc.problems[:3])
        return res
    rx = sc.received()
    for mech, detail in stream_checks(sc, {L: r for L, r in rx.items() if not L.startswith("O")}, allow_alien=True):
        V.append({"mech": "c05:" + mech, "detail": detail})
    res["nontrivial"] = True
    ok = True
    for L in ("FP", "FS"):
        if sc.cl[L].hello != "ack":
            ok = False
            V.append({"mech": "fresh_client_not_acknowledged", "detail": f"after fault {kind}: fresh client {L} handshake outcome {sc.cl[L].hello}"})
    got = {L: set() for L in rx}
    for L, r in rx.items():
        for f in r["frames"]:
            if f.pid in sc.pubs:
                got[L].add(f.pid)
    for pid, p in sc.pubs.items():
        if p["must"] is None:
            ok = False
            V.append({"mech": "probe_not_serviced", "detail": f"after fault {kind}: publication by {p['by']} was never serviced within the round budget"})
            continue
        for L in p["must"]:
            if L.startswith("O"):
                continue
            if pid not in got[L]:
                ok = False
                V.append({"mech": "probe_not_delivered", "detail": f"after fault {kind} ({case.get('fault', {}).get('note', '')}): publication by {p['by']} "
                                                                   f"(round {p['round']}) did not reach {L}"})
    # acknowledgements to the fresh subscriber: hello + subscribe
    acks = sum(1 for f in rx["FS"]["frames"] if f.msg_type == W.MT_ACK)
    if acks < 2:
        ok = False
        V.append({"mech": "fresh_client_not_acknowledged", "detail": f"after fault {kind}: FS saw {acks} ACKs (handshake + subscribe expected)"})
    if ok:
        C["probes_completed"] = 1
    C["rounds"] = len(sc.rounds)
    for k in ("call_send_timing_message", "call_send_traffic", "call_send_active_clients", "call_remove_module"):
        C[k] = sc.rig.counters.get(k, 0)
    if case.get("n", 0) % 211 == 0:
        res["sample"] = {"case": {k: (v if k != "fault" else {x: (y if x != "raws" else [[h[:64], n] for h, n in y]) for x, y in v.items()}) for k, v in desc.items()},
                         "rounds": len(sc.rounds)}
    return res


# ----------------------------------------------------------------------------------------------- floods
def run_flood(case):
    try:
        soft, hard = resource.getrlimit(resource.RLIMIT_NOFILE)
        resource.setrlimit(resource.RLIMIT_NOFILE, (min(hard, 4096), hard))
    except Exception:
        pass
    rig = ManagerRig(stepped=True)
    try:
        sc = Scenario(rig, 0)
        sc.max_drain = 2000
        sc.run(PRE)
        n = case["count"]
        for i in range(n):
            L = f"f{i}"
            sc.issue(["open", L])
            if case["kind"] == "dyn":
                sc.issue(["hello", L, {"mod_id": 0}])
            elif case["kind"] == "v1dyn":
                sc.issue(["hello", L, {"mod_id": 0, "v2": False}])
            if i % 25 == 24:
                sc.drain({"adv": 0.0001})
            if sc.crashed or sc.hung:
                break
        for st in [["drain", {"adv": 0.0001}]] + TIMERS:
            if sc.crashed or sc.hung:
                break
            sc.round(st[1]) if st[0] == "round" else sc.drain(st[1])
        # free the flood so the fresh pair is not competing for ids, then probe
        if not (sc.crashed or sc.hung):
            for i in range(0, n, 2):
                sc.issue(["close", f"f{i}", "rst" if i % 4 == 0 else "fin"])
            for st in [["drain", {"adv": 0.0001}]] + TIMERS + PROBE + TIMERS:
                if sc.crashed or sc.hung:
                    break
                if st[0] == "round":
                    sc.round(st[1])
                elif st[0] == "drain":
                    sc.drain(st[1] if len(st) > 1 else None)
                else:
                    sc.issue(st)
            if not (sc.crashed or sc.hung):
                rig.settle()
        c2 = {"mode": "single", "fault": {"kind": f"flood_{case['kind']}_{n}", "stage": "accepted", "note": f"{n} connections"}, "n": 0}
        sc.problems = [p for p in sc.problems if "handshake of f" not in p]
        res = judge(sc, c2)
        res["sig"] = sig_of(case)
        res["counters"]["flood_connections"] = n
        res["counters"]["flood_acked"] = sum(1 for L, c in sc.cl.items() if L.startswith("f") and c.hello == "ack")
        return res
    finally:
        rig.close()


# ----------------------------------------------------------------------------------------------- black box
def free_port():
    s = socket.socket()
    s.bind(("127.0.0.1", 0))
    p = s.getsockname()[1]
    s.close()
    return p


class BB:
    def __init__(self):
        env = dict(os.environ)
        env["PYTHONPATH"] = os.environ.get("VF_REPO", "/repo") + "/src"
        self.drainer = W.Drainer()
        # the free port is found by binding and closing: another process of this run may take it as a client port
        # before the manager binds it (the manager then exits at once), so starting is retried with another port
        for attempt in range(5):
            self.port = free_port()
            self.errpath = os.path.join(os.environ.get("VF_SCRATCH", "/verif/.scratch"), f"bb-{os.getpid()}-{self.port}.err")
            os.makedirs(os.path.dirname(self.errpath), exist_ok=True)
            self.err = open(self.errpath, "wb")
            self.proc = subprocess.Popen(["/venv/bin/python", "-m", "pyrtma.manager", "-a", "127.0.0.1", "-p", str(self.port)],
                                         stdin=subprocess.DEVNULL, stdout=self.err, stderr=subprocess.STDOUT, env=env)
            up = False
            end = time.time() + 30
            while time.time() < end and self.proc.poll() is None:
                try:
                    s = socket.create_connection(("127.0.0.1", self.port), timeout=0.5)
                    s.close()
                    up = True
                    break
                except OSError:
                    time.sleep(0.1)
            if up:
                break
            try:
                self.proc.kill()
                self.proc.wait(5)
            except Exception:
                pass
            self.err.close()

    def client(self, label):
        return W.WireClient(self.drainer, ("127.0.0.1", self.port), label)

    def connect(self, label, mod_id, logger=0, timeout=8.0):
        try:
            wc = self.client(label)
            wc.send_frame(W.MT_CONNECT_V2, W.p_connect_v2(logger, 0, 0, mod_id, 1, b""), src_mod=mod_id)
            wc.send_frame(W.MT_CONNECT, W.p_connect(logger, 0), src_mod=mod_id)
        except OSError:
            return None     # refused / reset: the callers look at the manager process to tell why
        return wc if self.wait(wc, lambda fs: any(f.msg_type == W.MT_ACK for f in fs), timeout) else None

    def wait(self, wc, pred, timeout=8.0):
        end = time.time() + timeout
        while time.time() < end:
            try:
                fs, _ = wc.frames()
            except W.ParseError:
                return False
            if pred(fs):
                return True
            if self.proc.poll() is not None:
                return False
            time.sleep(0.005)
        return False

    def probe(self, tag):
        """fresh pair: connect, subscribe, publish, receive"""
        s = self.connect("fs", 0)
        p = self.connect("fp", 0)
        if not s or not p:
            return f"fresh pair could not connect ({tag})"
        try:
            s.send_frame(W.MT_SUBSCRIBE, W.p_sub(T))
            if not self.wait(s, lambda fs: sum(1 for f in fs if f.msg_type == W.MT_ACK) >= 2):
                return f"subscribe not acknowledged ({tag})"
            p.send_frame(T, b"probe!!!", send_time=424242.0)
            if not self.wait(s, lambda fs: any(f.msg_type == T and f.send_time == 424242.0 and f.payload == b"probe!!!" for f in fs)):
                return f"publication not delivered ({tag})"
            return None
        finally:
            for c in (s, p):
                try:
                    c.send_frame(W.MT_DISCONNECT)
                except OSError:
                    pass
                c.close()

    def alive(self):
        return self.proc.poll() is None

    def stderr_text(self):
        self.err.flush()
        try:
            return open(self.errpath, "rb").read().decode("utf8", "replace")
        except OSError:
            return ""

    def close(self):
        try:
            self.proc.kill()
            self.proc.wait(5)
        except Exception:
            pass
        self.drainer.close()
        self.err.close()
        try:
            os.unlink(self.errpath)
        except OSError:
            pass


def run_churn(case):
    rng = random.Random(case["seed"])
    res = {"violations": [], "counters": {}, "sets": {"fault_kinds": ["churn"]}, "sig": sig_of(case), "nontrivial": True}
    V, C = res["violations"], res["counters"]
    bb = BB()
    try:
        err = bb.probe("before churn")
        if err:
            res["inconclusive"] = "black-box manager did not serve the first probe: " + err
            return res

        def nfds():
            try:
                return len(os.listdir(f"/proc/{bb.proc.pid}/fd"))
            except OSError:
                return -1

        fd0 = nfds()
        hdr_connect_bad = W.frame_bytes(W.MT_CONNECT_V2, W.p_connect_v2(0, 0, 0, 150, 1, b"x"), src_mod=150)
        half = W.frame_bytes(W.MT_CONNECT, W.p_connect(0, 0))[:20]
        done = 0
        kinds = {}
        while done < case["count"]:
            socks = []
            for _ in range(case["batch"]):
                k = rng.choice(["nothing", "half_header", "refused_id", "refused_id", "garbage", "connect_then_close"])
                kinds[k] = kinds.get(k, 0) + 1
                try:
                    sk = socket.create_connection(("127.0.0.1", bb.port), timeout=5)
                    if k == "half_header":
                        sk.sendall(half)
                    elif k == "refused_id":
                        sk.sendall(hdr_connect_bad)
                    elif k == "garbage":
                        sk.sendall(rng.randbytes(rng.randint(1, 47)))
                    elif k == "connect_then_close":
                        sk.sendall(W.frame_bytes(W.MT_CONNECT, W.p_connect(0, 0)))
                    socks.append((sk, k))
                except OSError as e:
                    if not bb.alive():
                        break
                    kinds["connect_error"] = kinds.get("connect_error", 0) + 1
            time.sleep(0.02)
            for sk, k in socks:
                try:
                    if rng.random() < 0.3:
                        sk.setsockopt(socket.SOL_SOCKET, socket.SO_LINGER, struct.pack("ii", 1, 0))
                    sk.close()
                except OSError:
                    pass
            done += len(socks)
            C["churn_connections"] = done
            if not bb.alive():
                break
            if (done // case["batch"]) % 10 == 0:
                err = bb.probe(f"after {done} short-lived connections")
                C["probes_completed"] = C.get("probes_completed", 0) + 1
                if err and not bb.alive():
                    break
                if err:
                    err2 = bb.probe("retry")
                    if err2 and bb.alive():
                        res["inconclusive"] = "black-box probe failed twice while the manager process was alive: " + err2
                        return res
        time.sleep(0.3)
        fd1 = nfds()
        C["faults_applied"] = done
        res["sets"]["churn_kinds"] = sorted(kinds)
        res["sets"]["manager_open_descriptors"] = [[fd0, fd1]]     # evidence: descriptors of the manager process before / after
        if not bb.alive():
            txt = bb.stderr_text()
            tb = txt[txt.rfind("Traceback"):] if "Traceback" in txt else txt[-600:]
            V.append({"mech": "manager_died:" + crash_mech(tb if "Traceback" in txt else ""),
                      "detail": f"black-box manager process exited (rc={bb.proc.poll()}) after {done} short-lived connections "
                                f"(kinds {kinds}); open descriptors before {fd0}\n{tb[-900:]}"})
            return res
        err = bb.probe("after the churn")
        C["probes_completed"] = C.get("probes_completed", 0) + 1
        if err:
            if bb.probe("retry") and bb.alive():
                V.append({"mech": "blackbox_probe_failed", "detail": err + f" after {done} short-lived connections; descriptors {fd0}->{fd1}"})
        res["sample"] = {"connections": done, "kinds": kinds, "manager_descriptors_before_after": [fd0, fd1]}
        return res
    finally:
        bb.close()


def run_blackbox(case):
    res = {"violations": [], "counters": {}, "sets": {}, "sig": sig_of([f["note"] for f in case["faults"]] + [case["flood"]]), "nontrivial": True}
    V, C = res["violations"], res["counters"]
    try:
        resource.setrlimit(resource.RLIMIT_NOFILE, (min(resource.getrlimit(resource.RLIMIT_NOFILE)[1], 4096), resource.getrlimit(resource.RLIMIT_NOFILE)[1]))
    except Exception:
        pass
    bb = BB()
    try:
        by = bb.connect("bystander", 95)
        if by is None:
            res["inconclusive"] = "black-box manager did not accept the bystander: " + bb.stderr_text()[-400:]
            return res
        by.send_frame(W.MT_SUBSCRIBE, W.p_sub(ALL))
        last = "start"

        def died(after):
            txt = bb.stderr_text()
            tb = txt[txt.rfind("Traceback"):] if "Traceback" in txt else txt[-600:]
            V.append({"mech": "manager_died:" + crash_mech(tb if "Traceback" in txt else ""), "detail": f"black-box manager process exited (rc={bb.proc.poll()}) after fault: {after}\n{tb[-900:]}"})

        for i, f in enumerate(case["faults"]):
            try:
                o = bb.client("o")
            except OSError:
                if not bb.alive():
                    died(last)
                    return res
                time.sleep(0.2)
                continue
            try:
                if f["stage"] != "accepted":
                    o.send_frame(W.MT_CONNECT_V2, W.p_connect_v2(int(f["stage"] == "logger"), 0, 0, 30, 1, b""), src_mod=30)
                    o.send_frame(W.MT_CONNECT, W.p_connect(int(f["stage"] == "logger"), 0), src_mod=30)
                    bb.wait(o, lambda fs: len(fs) >= 1, 5.0)
                    if f["stage"] == "subscribed":
                        o.send_frame(W.MT_SUBSCRIBE, W.p_sub(T))
                    if f["stage"] in ("suball", "logger"):
                        o.send_frame(W.MT_SUBSCRIBE, W.p_sub(ALL))
                for hx, n in f["raws"]:
                    o.send_raw(bytes.fromhex(hx))
            except OSError:
                pass
            withheld = f["close"] is None and any(n == 0 for hx, n in f["raws"])
            time.sleep(0.01)
            o.close(rst=(f["close"] == "rst")) if f["close"] else None
            last = f"{f['kind']}: {f['note']}"
            C["blackbox_faults"] = C.get("blackbox_faults", 0) + 1
            if i % 6 == 5 or i == len(case["faults"]) - 1:
                err = bb.probe(last)
                if not bb.alive():
                    died(last)
                    return res
                if err:
                    time.sleep(1.0)
                    err = bb.probe(last + " (second attempt)")
                if not bb.alive():
                    died(last)
                    return res
                if err:
                    if "Traceback" in bb.stderr_text():
                        V.append({"mech": "blackbox_probe_failed", "detail": err + " stderr tail: " + bb.stderr_text()[-300:]})
                    else:
                        # process alive, nothing on stderr, only a wall-clock wait expired twice: not a verdict
                        res["inconclusive"] = "black-box probe timed out twice while the manager process was alive and silent: " + err
                    return res
                C["probes_completed"] = C.get("probes_completed", 0) + 1
            if f["close"] is None:
                try:
                    o.send_frame(W.MT_DISCONNECT)
                except OSError:
                    pass
                o.close()
        flood = []
        for i in range(case["flood"]):
            try:
                c = bb.client(f"fl{i}")
                if i % 2 == 0:
                    c.send_frame(W.MT_CONNECT_V2, W.p_connect_v2(0, 0, 0, 0, 1, b""))
                    c.send_frame(W.MT_CONNECT, W.p_connect(0, 0))
                flood.append(c)
            except OSError:
                break
        C["blackbox_flood_connections"] = len(flood)
        time.sleep(6.5)  # let TIMING / TRAFFIC / ACTIVE_CLIENTS timers fire over everything that was counted
        if not bb.alive():
            died(f"flood of {len(flood)} connections / timers after: {last}")
            return res
        for c in flood:
            c.close()
        err = bb.probe("after timers")
        if err and bb.alive():
            time.sleep(1.0)
            err = bb.probe("after timers (second attempt)")
        if not bb.alive():
            died("after timers: " + last)
        elif err:
            if "Traceback" in bb.stderr_text():
                V.append({"mech": "blackbox_probe_failed", "detail": err})
            else:
                res["inconclusive"] = "black-box probe timed out twice while the manager process was alive and silent: " + err
        else:
            C["probes_completed"] = C.get("probes_completed", 0) + 1
        txt = bb.stderr_text()
        if "Traceback" in txt and bb.alive():
            C["blackbox_tracebacks_on_stderr_while_alive"] = 1
        res["sets"]["fault_kinds"] = ["blackbox"]
        res["sample"] = {"blackbox_faults": [f["note"] for f in case["faults"][:8]], "flood": case["flood"]}
        return res
    finally:
        bb.close()
