"""C12 — id and name conflicts are always detected, never invented.

Conflict-free closures over every import-graph shape are parsed by the real Parser (in-process, plus a CLI
stratum): no ParserError may be raised, every file must be read exactly once (runtime call counter on
Parser.parse_text keyed by the resolved path it is parsing) and every definition of every file must be
registered. Then exactly one conflict is injected at a chosen placement (same file, parent/child, siblings,
distant files; both definition orders) and the parse must fail with the corresponding error class.
"""
from __future__ import annotations

import logging
import os
import random
import re
import shutil
import subprocess
from pathlib import Path

from vf.driver import sig_of
from vf.gen import defs as G

ID = "C12"
LEVEL = "exploration"
NS = ["constants", "string_constants", "aliases", "struct_defs", "message_defs"]
KINDS = (["msg_msg", "msg_sig", "sig_sig", "msg_reserved_single", "msg_in_range_dash", "msg_in_range_to", "reserved_overlap", "module_id", "host_id",
          "msg_id_low", "msg_id_high", "msg_id_huge", "module_id_low", "module_id_mid", "module_id_neg", "host_id_high", "host_id_neg"] +
         [f"name:{a}:{b}" for i, a in enumerate(NS) for b in NS[i:]])
RULE = ("cases = conflict-free closures (all import-graph shapes incl. diamonds, re-spelled relative paths, symlinked duplicates, import "
        "cycles) and the same closures with exactly one injected conflict: id collisions message/message, message/signal, "
        "signal/signal, message/reserved single id, message inside a reserved range in each spelling, reserved/reserved overlap, "
        "module ids, host ids, all 15 unordered pairs of the five shared-namespace kinds, out-of-range message/module/host ids; "
        "placements same file / parent-child / siblings / distant, both definition orders. Non-trivial = an injected case, or a "
        "conflict-free closure of >= 2 files; distinct = hash of the file texts")
ASSUMPTIONS = ["two identical keys in one YAML mapping are rejected by the YAML loader itself (YAMLSyntaxError accepted there)",
               "message id exactly 10000 is left open; generated ids avoid the core definitions' own ids",
               ".yml imports are excluded (the parser prompts on stdin)"]
REQUIRE = {"conflict_free_closures": 150, "injected_conflicts": 300, "files_read_once_checked": 400, "conflict_kinds": 25}
CASE_TIMEOUT = 120
NOCORE_KINDS = ["host_dup_oor", "module_dup_oor", "msg_msg", "module_id", "host_id", "msg_reserved_single", "name:constants:message_defs",
                "name:aliases:struct_defs", "msg_id_high"]
EXPECT = {"host_dup_oor": "HostIDError", "module_dup_oor": "ModuleIDError", "msg_msg": "MessageIDError", "msg_sig": "MessageIDError", "sig_sig": "MessageIDError", "msg_reserved_single": "MessageIDError",
          "msg_in_range_dash": "MessageIDError", "msg_in_range_to": "MessageIDError", "reserved_overlap": "MessageIDError",
          "module_id": "ModuleIDError", "host_id": "HostIDError", "msg_id_low": "RTMASyntaxError", "msg_id_high": "RTMASyntaxError",
          "msg_id_huge": "RTMASyntaxError", "module_id_low": "RTMASyntaxError", "module_id_mid": "RTMASyntaxError", "module_id_neg": "RTMASyntaxError",
          "host_id_high": "RTMASyntaxError", "host_id_neg": "RTMASyntaxError"}

_COUNTER = {"installed": False, "calls": []}


def install_counter():
    if _COUNTER["installed"]:
        return
    from pyrtma.parser import Parser
    orig = Parser.parse_text

    def counted(self, text):
        _COUNTER["calls"].append(str(getattr(self, "current_file", "?")))
        return orig(self, text)

    Parser.parse_text = counted
    _COUNTER["installed"] = True


def gen_cases(tier, seed):
    rng = random.Random(f"c12-{seed}")
    nfree, ninj, ncli = (200, 1000, 12) if tier == "quick" else (6000, 44000, 300)
    cases = []
    for i in range(nfree):
        cases.append({"mode": "free", "seed": rng.getrandbits(40), "shape": [None, "diamond", "respell", "symlink", "cycle", "subdirs", "chain", "siblings", "random", "dirgraph"][i % 10]})
    for i in range(ninj):
        cases.append({"mode": "inject", "seed": rng.getrandbits(40), "kind": KINDS[i % len(KINDS)], "place": rng.choice(["same", "any", "any", "any"]),
                      "order": i % 2, "pos": rng.choice(["first", "last"])})
    for i in range(ncli):
        cases.append({"mode": "cli", "seed": rng.getrandbits(40), "kind": rng.choice([None] + KINDS)})
    # the same without the implicit import of the core definitions (the id ranges reserved for the core are then
    # open to the user, duplicates are duplicates all the same)
    for i in range(120 if tier == "quick" else 5000):
        cases.append({"mode": "inject" if i % 4 else "free", "seed": rng.getrandbits(40), "kind": NOCORE_KINDS[i % len(NOCORE_KINDS)] if i % 4 else None,
                      "place": rng.choice(["same", "any", "any"]), "order": i % 2, "pos": rng.choice(["first", "last"]), "nocore": True})
    return cases


# ------------------------------------------------------------------------------------------------ injection
def add_entry(text, section, entry, pos="last"):
    """insert `entry` (already indented by two spaces, may span lines) into a top-level section of a generated file"""
    lines = text.split("\n")
    for i, ln in enumerate(lines):
        if ln.rstrip() == f"{section}: null":
            lines[i] = f"{section}:\n{entry}"
            return "\n".join(lines)
        if ln.rstrip() == f"{section}:":
            j = i + 1
            if pos == "last":
                while j < len(lines) and lines[j].startswith(" "):
                    j += 1
            lines.insert(j, entry)
            return "\n".join(lines)
    return text + f"{section}:\n{entry}\n"


def inject(prog, kind, rng, place, order, pos):
    files = dict(prog["files"])
    names = list(files)
    a = rng.choice(names)
    b = a if (place == "same" or len(names) == 1) else rng.choice(names)
    if order:
        a, b = b, a
    if kind.startswith(("msg_id_", "module_id_", "host_id_")) and os.path.basename(a) == "core_defs.yaml":
        # the parser deliberately waives the id ranges inside a file of that name: put the out-of-range id elsewhere
        others = [f for f in names if os.path.basename(f) != "core_defs.yaml"]
        if not others:
            return None
        a = rng.choice(others)
    used = {d["id"] for d in prog["desc"]["defs"].values() if d.get("id") is not None} | set(prog["desc"]["reserved"])
    base = 7000 + rng.randint(0, 900)
    for _ in range(200):     # the injected ids (base-3 .. base+51) must be free in the generated closure
        if not any(x in used for x in range(base - 3, base + 52)):
            break
        base = rng.randint(200, 9900)
    u = rng.randint(0, 9999)

    copyform = prog.get("use_core", True) and rng.random() < 0.3

    def msg(name, mid, signal=False):
        if copyform and not signal:
            # the copy form: the field list of another definition (here a struct of the core definitions)
            return f"  {name}:\n    id: {mid}\n    fields: RTMA_MSG_HEADER"
        return f"  {name}:\n    id: {mid}\n    fields:" + (" null" if signal else "\n      q: int32")

    ea = eb = None
    sa = sb = None
    if kind in ("msg_msg", "msg_sig", "sig_sig"):
        sa = sb = "message_defs"
        ea = msg(f"XA{u}", base, signal=(kind == "sig_sig"))
        eb = msg(f"XB{u}", base, signal=(kind in ("msg_sig", "sig_sig")))
    elif kind in ("msg_reserved_single", "msg_in_range_dash", "msg_in_range_to", "reserved_overlap"):
        sa = sb = "message_defs"
        spell = {"msg_reserved_single": f"[{base}]", "msg_in_range_dash": f"[{base - 2} - {base + 3}]", "msg_in_range_to": f"['{base - 1} to {base + 1}']",
                 "reserved_overlap": f"[{base - 3} - {base}]"}[kind]
        ea = f"  _RESERVED_:\n    id: {spell}"
        eb = msg(f"XB{u}", base) if kind != "reserved_overlap" else f"  _RESERVED_:\n    id: [{base}, {base + 50}]"
        if ("_RESERVED_:" in files[a]) or (eb.startswith("  _RESERVED_") and "_RESERVED_:" in files[b]) or (a == b and eb.startswith("  _RESERVED_")):
            # a second _RESERVED_ key in one mapping would be a YAML duplicate key: move to files without one
            cands = [f for f in names if "_RESERVED_:" not in files[f]]
            if not cands:
                return None
            a = rng.choice(cands)
            if eb.startswith("  _RESERVED_"):
                cands2 = [f for f in cands if f != a]
                if not cands2:
                    return None
                b = rng.choice(cands2)
    elif kind == "module_id":
        sa = sb = "module_ids"
        v = rng.choice([61, 77, 201, 250, 0])     # (0 is exempt from the range rule, not from the duplicate rule; the core definitions use it too)
        ea, eb = f"  XMA{u}: {v}", f"  XMB{u}: {v}"
    elif kind == "host_dup_oor":
        sa = sb = "host_ids"
        v = rng.choice([0, -1, 0x8000, 40000, -32768])
        ea, eb = f"  XHA{u}: {v}", f"  XHB{u}: {v}"
    elif kind == "module_dup_oor":
        sa = sb = "module_ids"
        v = rng.choice([5, 9, 150, 199, -3, 0])
        ea, eb = f"  XMA{u}: {v}", f"  XMB{u}: {v}"
    elif kind == "host_id":
        sa = sb = "host_ids"
        v = rng.randint(20000, 30000)
        ea, eb = f"  XHA{u}: {v}", f"  XHB{u}: {v}"
    elif kind.startswith("msg_id_"):
        sa = "message_defs"
        ea = msg(f"XA{u}", {"msg_id_low": -1, "msg_id_high": 10001, "msg_id_huge": 2 ** 31}[kind], signal=rng.random() < 0.5)
    elif kind.startswith("module_id_"):
        sa = "module_ids"
        ea = f"  XMA{u}: {dict(module_id_low=5, module_id_mid=150, module_id_neg=-3)[kind]}"
    elif kind.startswith("host_id_"):
        sa = "host_ids"
        ea = f"  XHA{u}: {dict(host_id_high=40000, host_id_neg=-1)[kind]}"
    elif kind.startswith("name:"):
        _, k1, k2 = kind.split(":")
        nm = f"XN{u}"
        struct_alias = prog.get("use_core", True) and rng.random() < 0.5

        def entry(k, tag):
            if k == "constants":
                return f"  {nm}: {rng.randint(1, 50)}"
            if k == "string_constants":
                return f"  {nm}: 'text{tag}'"
            if k == "aliases":
                # (half of them alias a struct - of the core definitions, which every file sees - instead of a native type)
                return f"  {nm}: {'RTMA_MSG_HEADER' if struct_alias else 'int32'}"
            if k == "struct_defs":
                return f"  {nm}:\n    fields:\n      q{tag}: int32"
            return f"  {nm}:\n    id: {base + (0 if tag == 'a' else 1)}\n    fields:\n      q{tag}: int32"

        sa, sb = k1, k2
        ea, eb = entry(k1, "a"), entry(k2, "b")
        if order:
            sa, sb, ea, eb = sb, sa, eb, ea
    files[a] = add_entry(files[a], sa, ea, pos)
    if eb is not None:
        files[b] = add_entry(files[b], sb, eb, pos)
    same_key = a == b and sa == sb and kind.startswith("name:")
    return {"files": files, "a": a, "b": b if eb is not None else None, "same_yaml_key": same_key}


def relation(prog, a, b):
    if b is None:
        return "single"
    if a == b:
        return "same_file"
    ta, tb = prog["files"][a], prog["files"][b]
    ba, bb = os.path.basename(a), os.path.basename(b)
    if bb in ta or ba in tb:
        return "parent_child"
    return "siblings_or_distant"


# ------------------------------------------------------------------------------------------------ run
def run_case(case, tier):
    from pyrtma.parser import Parser, ParserError
    install_counter()
    res = {"violations": [], "counters": {}, "sets": {}, "sig": None, "nontrivial": False}
    V, C = res["violations"], res["counters"]
    rng = random.Random(case["seed"])
    prog = G.gen_program(case["seed"], allow_known=False, shape=case.get("shape"), use_core=not case.get("nocore"))
    work = Path(os.environ["VF_SCRATCH"]) / f"c12-{os.getpid()}-{case['n']}"
    try:
        inj = None
        kind = case.get("kind")
        if case["mode"] == "inject" or (case["mode"] == "cli" and kind):
            inj = inject(prog, kind, rng, case.get("place", "any"), case.get("order", 0), case.get("pos", "last"))
            if inj is None:
                res["sig"] = sig_of([case["seed"], kind, "skipped"])
                return res
            prog = dict(prog, files=inj["files"])
        res["sig"] = sig_of(prog["files"])
        root = G.write_closure(prog, work)
        if case["mode"] == "cli":
            (work / "out").mkdir(exist_ok=True)
            r = subprocess.run(["/venv/bin/python", "-m", "pyrtma.compile", "-i", str(root), "-o", str(work / "out"), "--info"], stdin=subprocess.DEVNULL,
                               capture_output=True, text=True, timeout=120)
            C["cli_runs"] = 1
            txt = r.stdout + r.stderr
            if inj is None:
                if r.returncode != 0:
                    V.append({"mech": "cli_rejects_conflict_free_closure", "detail": txt[-400:]})
            else:
                exp = EXPECT.get(kind, "DuplicateNameError")
                ok_classes = {exp} | ({"YAMLSyntaxError"} if inj["same_yaml_key"] else set())
                if r.returncode != 1 or not any(re.search(rf"^{c}:", txt, re.M) for c in ok_classes):
                    V.append({"mech": f"cli_conflict_not_reported:{kind}", "detail": f"exit status {r.returncode}, expected 1 with {sorted(ok_classes)}: {txt[-300:]}"})
                res["nontrivial"] = True
            return res
        _COUNTER["calls"].clear()
        p = Parser(import_coredefs=not case.get("nocore"))
        p.logger.setLevel(logging.CRITICAL)
        for h in list(p.logger.handlers):
            p.logger.removeHandler(h)
        if inj is None and case.get("n", 0) % 4 == 0:
            # the same Parser object has just refused a conflicting version of this closure (another directory): what is
            # left behind must not turn into a conflict of the clean version, nor hide one file from being read
            how = rng.choice(["msg_msg", "module_id", "host_id", "name:constants:message_defs", "name:aliases:struct_defs", "slip", "slip"])
            if how == "slip":
                # an authoring slip the parser reports with a plain python exception (no 'fields' key, division by zero,
                # an empty field list): also a refusal, also followed by a second try
                tgt = rng.choice(list(prog["files"]))
                slip = rng.choice(["message_defs:\n  XSLIP:\n    id: 9871\n", "constants:\n  XSLIP: 10 / 0\n",
                                   "struct_defs:\n  XSLIP:\n    fields: {}\n"])
                sect = slip.split(":")[0]
                body = slip.split("\n", 1)[1].rstrip("\n")
                bad = {"files": dict(prog["files"], **{tgt: add_entry(prog["files"][tgt], sect, body, "last")})}
            else:
                bad = inject(prog, how, rng, "any", 0, "last")
            if bad is not None:
                broot = G.write_closure(dict(prog, files=bad["files"]), work / "refused_version")
                try:
                    p.parse(broot)
                except BaseException:
                    C["parser_objects_reused_after_refusal"] = C.get("parser_objects_reused_after_refusal", 0) + 1
                else:
                    p = Parser(import_coredefs=not case.get("nocore"))
                    p.logger.setLevel(logging.CRITICAL)
                    for h in list(p.logger.handlers):
                        p.logger.removeHandler(h)
                _COUNTER["calls"].clear()
        err = None
        try:
            p.parse(root)
        except ParserError as e:
            err = type(e).__name__
            msg = str(e)[:300]
        except Exception as e:
            err = "internal:" + type(e).__name__
            msg = str(e)[:300]
        calls = list(_COUNTER["calls"])
        if inj is None:
            C["conflict_free_closures"] = 1
            res["nontrivial"] = prog["nfiles"] >= 2
            res["sets"]["shape"] = [prog["shape"]]
            if err is not None:
                V.append({"mech": f"conflict_invented:{err}", "detail": f"conflict-free closure (shape {prog['shape']}, {prog['nfiles']} files) raised {err}: {msg}"})
                return res
            # read once
            real = {}
            for c in calls:
                real[os.path.realpath(c)] = real.get(os.path.realpath(c), 0) + 1
            for rel in prog["files"]:
                C["files_read_once_checked"] = C.get("files_read_once_checked", 0) + 1
                n = real.get(os.path.realpath(work / rel), 0)
                if n != 1:
                    V.append({"mech": "file_parsed_twice" if n > 1 else "file_not_parsed", "detail": f"{rel} parsed {n} times in one parse() (shape {prog['shape']})"})
            for pth, n in real.items():
                if n > 1:
                    V.append({"mech": "file_parsed_twice", "detail": f"{pth} parsed {n} times"})
            # union of the files is registered
            D = prog["desc"]
            missing = [n for n, d in D["defs"].items() if n not in (p.struct_defs if d["kind"] == "struct" else p.message_defs)]
            missing += [n for n in D["constants"] if n not in p.constants] + [n for n in D["strings"] if n not in p.string_constants]
            missing += [n for n in D["aliases"] if n not in p.aliases] + [n for n in D["hosts"] if n not in p.host_ids] + [n for n in D["modules"] if n not in p.module_ids]
            missing += [f"reserved {i}" for i in D["reserved"] if f"_RESERVED_{i:06d}" not in p.message_defs]
            if missing:
                V.append({"mech": "definitions_not_registered", "detail": f"{missing[:8]}"})
            for n, d in D["defs"].items():
                if d["id"] is not None and p.message_ids.get(n) and p.message_ids[n].value != d["id"]:
                    V.append({"mech": "definitions_not_registered", "detail": f"{n} id {p.message_ids[n].value} != {d['id']}"})
        else:
            C["injected_conflicts"] = 1
            res["nontrivial"] = True
            exp = EXPECT.get(kind, "DuplicateNameError")
            ok_classes = {exp} | ({"YAMLSyntaxError"} if inj["same_yaml_key"] else set())
            rel = relation(prog, inj["a"], inj["b"])
            res["sets"]["conflict_kinds"] = [kind]
            res["sets"]["placement"] = [[kind.split(":")[0], rel, case.get("order"), case.get("pos")]]
            if err is None:
                V.append({"mech": f"conflict_not_detected:{kind.split(':')[0]}", "detail": f"injected {kind} ({rel}: {inj['a']} / {inj['b']}) parsed without error"})
            elif err not in ok_classes:
                V.append({"mech": f"wrong_error_class:{kind.split(':')[0]}:{err}", "detail": f"injected {kind} ({rel}) raised {err} ({msg}), expected {sorted(ok_classes)}"})
        if case["n"] % 101 == 0:
            res["sample"] = {"case": {k: case[k] for k in case if k != "n"}, "shape": prog["shape"], "files": list(prog["files"]), "outcome": err or "parsed"}
        return res
    finally:
        shutil.rmtree(work, ignore_errors=True)
