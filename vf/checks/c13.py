"""C13 — the version hash identifies the definition text, everywhere the same.

(a) stability: one target definition is parsed by the real Parser in many surroundings (other file / directory of the
    import graph, comments, blank lines, unrelated and reordered other definitions, different key order of the YAML
    sections) and, in a subprocess stratum, under different PYTHONHASHSEED values, working directories and entry points
    (API vs CLI) -> the 32-bit hash must be identical.
(b) sensitivity: every single edit (rename, id change, field rename, field type text change, insertion, deletion,
    reordering of two fields, signal<->message) must change it.
(c) the hash in the C / JS / MATLAB outputs equals the Python type_hash.
(d) frames captured from a real Client.send_message carry header.version == the class's type_hash (both header layouts).
"""
from __future__ import annotations

import logging
import os
import random
import shutil
import struct
import time
import warnings
from pathlib import Path

from vf.driver import sig_of
from vf.gen import defs as G
from vf.loaders import langs as L
from vf.rig import compiler_rig as CR, field_rig
from vf.rig import wire as W

ID = "C13"
LEVEL = "exploration"
RULE = ("cases = generated message definitions x relocations (root / imported file / sub-directory / diamond; with comments, blank "
        "lines, unrelated definitions before and after, other definitions reordered) x single edits {rename, id change, field "
        "rename, field type text change, insertion, deletion, swap of two fields, signal<->message}; subprocess stratum over "
        "PYTHONHASHSEED in {0,1,random}, cwd, API vs CLI with all four outputs loaded; every message class of core_defs, "
        "tests/test_msg_defs and the generated fixture sent once through a real Client on both header layouts. Non-trivial = "
        "a definition with >= 1 field; distinct = hash of the target definition text")
ASSUMPTIONS = ["send_signal(type) has no class in hand and leaves version 0 (allowed there only)",
               "an edit that collides in 32 bits has probability 2^-32 and is re-checked with a second edit before being reported"]
REQUIRE = {"relocations_compared": 300, "edits_compared": 500, "frames_captured": 150, "subprocess_hash_sets": 4,
           "resend_frames_captured": 20, "rebuilt_output_hashes_compared": 60}
CASE_TIMEOUT = 240
TYPES = ["int32", "double", "char", "uint8", "int16", "float", "int64", "uint16", "byte", "unsigned int", "long long"]


def prepare(tier, seed, scratch):
    CR.prepare_prelude(scratch)
    field_rig.build(scratch)


def gen_target(rng):
    name = "TGT_" + rng.choice(G.WORDS).upper() + str(rng.randint(0, 99))
    mid = rng.randint(1000, 9000)
    nf = rng.randint(0, 6)
    fields = []
    for i in range(nf):
        t = rng.choice(TYPES)
        ln = rng.choice([None, None, "3", "K_LEN", "K_LEN + 1", "16", "(K_LEN + 1) * 2", "2 * (K_LEN - 1)", "K_LEN * 3",
                         "(K_LEN+1)*(K_LEN-2)", "K_LEN * K_LEN - 1", "0x10", "( 4 )"])
        fn = f"g{i}_{rng.choice(G.WORDS)}"
        if rng.random() < 0.12:
            fn += rng.choice(NONASCII)          # identifiers need not be ASCII
        fields.append([fn, t + (f"[{ln}]" if ln else "")])
    if rng.random() < 0.1:
        name += "_" + rng.choice(NONASCII).upper()
    arr = [f for f in fields if "[" in f[1]]
    if arr and rng.random() < 0.15:
        # a blank between the type and its length (every variant then spells it that way: the spelling is part of the text)
        f = rng.choice(arr)
        f[1] = f[1].replace("[", " [", 1)
    if fields and rng.random() < 0.2:
        # a field named with a plain word that older YAML versions read as a boolean
        fields[rng.randrange(len(fields))][0] = rng.choice(["on", "off", "yes", "no"])
    return {"name": name, "id": mid, "fields": fields}


NONASCII = ["ä", "ö", "ü", "é", "ß", "δ", "α", "β", "ñ", "å"]


def render(t, indent=2):
    pad = " " * indent
    if not t["fields"]:
        return f"{pad}{t['name']}:\n{pad}  id: {t['id']}\n{pad}  fields: null"
    return f"{pad}{t['name']}:\n{pad}  id: {t['id']}\n{pad}  fields:\n" + "\n".join(f"{pad}    {f[0]}: {f[1]}" for f in t["fields"])


def surround(t, rng, variant):
    """files dict + root for one placement variant of target t"""
    other_a = "  OTH_A:\n    id: 9101\n    fields:\n      x: int32\n      y: double"
    other_b = "  OTH_B:\n    id: 9102\n    fields: null"
    consts = "constants:\n  K_LEN: 5\n"
    tgt = render(t)
    if variant == "plain":
        return {"r.yaml": consts + "message_defs:\n" + tgt + "\n"}, "r.yaml"
    if variant == "comments":
        body = "\n".join(ln + ("  # note" if i % 2 else "") for i, ln in enumerate(tgt.split("\n")))
        return {"r.yaml": "# header comment\n\n" + consts + "\n\n# defs\nmessage_defs:\n\n" + body + "\n\n"}, "r.yaml"
    if variant == "others_before":
        return {"r.yaml": consts + "message_defs:\n" + other_a + "\n" + other_b + "\n" + tgt + "\n"}, "r.yaml"
    if variant == "others_after":
        return {"r.yaml": consts + "message_defs:\n" + tgt + "\n" + other_b + "\n" + other_a + "\n"}, "r.yaml"
    if variant == "sections_reordered":
        return {"r.yaml": "message_defs:\n" + tgt + "\nstruct_defs:\n  ST_X:\n    fields:\n      a: int8\n" + consts}, "r.yaml"
    if variant == "imported":
        return {"r.yaml": "imports:\n  - lib.yaml\nmessage_defs:\n" + other_a + "\n", "lib.yaml": consts + "message_defs:\n" + tgt + "\n"}, "r.yaml"
    if variant == "subdir":
        return {"r.yaml": "imports:\n  - deep/er/lib.yaml\nmessage_defs:\n" + other_b + "\n", "deep/er/lib.yaml": consts + "message_defs:\n" + tgt + "\n"}, "r.yaml"
    if variant == "diamond":
        return {"r.yaml": "imports:\n  - a.yaml\n  - b.yaml\nmessage_defs:\n" + other_a + "\n", "a.yaml": "imports:\n  - lib.yaml\n", "b.yaml": "imports:\n  - ./lib.yaml\n",
                "lib.yaml": consts + "message_defs:\n" + tgt + "\n"}, "r.yaml"
    if variant == "after_yaml11_import":
        # an unrelated file of the import graph that declares an older YAML version is read first
        return {"r.yaml": "imports:\n  - legacy.yaml\n  - lib.yaml\nmessage_defs:\n" + other_a + "\n", "legacy.yaml": "%YAML 1.1\n---\nconstants:\n  K_OLD: 3\n",
                "lib.yaml": consts + "message_defs:\n" + tgt + "\n"}, "r.yaml"
    if variant == "anchor_shared":
        # another definition listed first shares the very same field mapping through a YAML anchor; the target refers to it by alias
        if not t["fields"]:
            return {"r.yaml": consts + "message_defs:\n" + tgt + "\n"}, "r.yaml"
        flds = "\n".join(f"      {f[0]}: {f[1]}" for f in t["fields"])
        return {"r.yaml": consts + "message_defs:\n  OTH_ANCHOR:\n    id: 9103\n    fields: &shared_fields\n" + flds
                + f"\n  {t['name']}:\n    id: {t['id']}\n    fields: *shared_fields\n"}, "r.yaml"
    if variant == "importer_of_consts":
        return {"r.yaml": "imports:\n  - k.yaml\nmessage_defs:\n" + tgt + "\n", "k.yaml": consts}, "r.yaml"
    if variant == "fields_before_id":
        pad = "  "
        if t["fields"]:
            body = f"{pad}{t['name']}:\n{pad}  fields:\n" + "\n".join(f"{pad}    {f[0]}: {f[1]}" for f in t["fields"]) + f"\n{pad}  id: {t['id']}"
        else:
            body = f"{pad}{t['name']}:\n{pad}  fields: null\n{pad}  id: {t['id']}"
        return {"r.yaml": consts + "message_defs:\n" + body + "\n"}, "r.yaml"
    if variant == "flow_style":
        if t["fields"]:
            body = f"  {t['name']}: {{id: {t['id']}, fields: {{" + ", ".join(f"{f[0]}: '{f[1]}'" for f in t["fields"]) + "}}"
        else:
            body = f"  {t['name']}: {{id: {t['id']}, fields: null}}"
        return {"r.yaml": consts + "message_defs:\n" + body + "\n"}, "r.yaml"
    if variant == "indent4":
        return {"r.yaml": consts + "message_defs:\n" + render(t, 4) + "\n"}, "r.yaml"
    raise ValueError(variant)


VARIANTS = ["plain", "comments", "others_before", "others_after", "sections_reordered", "imported", "subdir", "diamond", "importer_of_consts", "indent4", "fields_before_id", "flow_style", "after_yaml11_import", "anchor_shared"]


def edits(t, rng):
    out = []
    e = dict(t, name=t["name"] + "X")
    out.append(("rename", e))
    out.append(("id_change", dict(t, id=t["id"] + 1)))
    if t["fields"]:
        i = rng.randrange(len(t["fields"]))
        f = [list(x) for x in t["fields"]]
        f[i][0] += "z"
        out.append(("field_rename", dict(t, fields=f)))
        f = [list(x) for x in t["fields"]]
        base = f[i][1].split("[")[0]
        f[i][1] = f[i][1].replace(base, rng.choice([x for x in TYPES if x != base]), 1)
        out.append(("field_type", dict(t, fields=f)))
        f = [list(x) for x in t["fields"]]
        f[i][1] = (f[i][1].split("[")[0] + "[7]") if "[7]" not in f[i][1] else f[i][1].split("[")[0]
        out.append(("field_length_text", dict(t, fields=f)))
        na = [k for k, x in enumerate(t["fields"]) if any(ch in x[0] for ch in NONASCII)]
        if na:
            # one non-ASCII letter of a field name becomes another one
            k = rng.choice(na)
            f = [list(x) for x in t["fields"]]
            pos = next(p_ for p_, ch in enumerate(f[k][0]) if ch in NONASCII)
            f[k][0] = f[k][0][:pos] + rng.choice([c for c in NONASCII if c != f[k][0][pos]]) + f[k][0][pos + 1:]
            out.append(("field_rename_nonascii", dict(t, fields=f)))
        withlen = [k for k, x in enumerate(t["fields"]) if "[" in x[1]]
        if withlen:
            # the smallest change of a length text: one digit of it (or an added term)
            k = rng.choice(withlen)
            f = [list(x) for x in t["fields"]]
            base, ln = f[k][1].split("[", 1)
            ln = ln.rsplit("]", 1)[0]
            digits = [p for p, ch in enumerate(ln) if ch.isdigit()] if "x" not in ln.lower() else []
            if digits:
                p_ = rng.choice(digits)
                ln2 = ln[:p_] + str(int(ln[p_]) % 9 + 1) + ln[p_ + 1:]
            else:
                ln2 = ln + " + 1"
            f[k][1] = f"{base}[{ln2}]"
            out.append(("length_expression_edit", dict(t, fields=f)))
        f = [list(x) for x in t["fields"]]
        del f[i]
        if f:
            out.append(("field_deletion", dict(t, fields=f)))
        else:
            out.append(("message_to_signal", dict(t, fields=[])))
        if len(t["fields"]) >= 2:
            j = (i + 1) % len(t["fields"])
            f = [list(x) for x in t["fields"]]
            if f[i] != f[j]:
                f[i], f[j] = f[j], f[i]
                out.append(("field_swap", dict(t, fields=f)))
    else:
        out.append(("signal_to_message", dict(t, fields=[["only", "int32"]])))
    f = [list(x) for x in t["fields"]]
    f.insert(rng.randint(0, len(f)), ["ins_new", rng.choice(TYPES)])
    out.append(("field_insertion", dict(t, fields=f)))
    return out


def gen_cases(tier, seed):
    rng = random.Random(f"c13-{seed}")
    n, nproc, nsend = (150, 6, 12) if tier == "quick" else (4500, 70, 48)
    cases = [{"mode": "stab", "seed": rng.getrandbits(40)} for _ in range(n)]
    cases += [{"mode": "proc", "seed": rng.getrandbits(40)} for _ in range(nproc)]
    for i in range(4 if tier == "quick" else 60):
        cases.append({"mode": "resend", "seed": rng.getrandbits(40), "tc": i % 2 == 1})
    for i in range(6 if tier == "quick" else 48):
        cases.append({"mode": "rebuild", "seed": rng.getrandbits(40), "variant": ["subdir", "plain", "imported", "diamond", "subdir", "importer_of_consts"][i % 6],
                      "cli": i % 4 != 3})
    for i in range(nsend):
        cases.append({"mode": "send", "seed": rng.getrandbits(40), "tc": i % 2 == 1, "chunk": i // 2, "nchunks": max(1, nsend // 2)})
    return cases


def parse_hash(files, root, name, work):
    from pyrtma.parser import Parser
    if work.exists():
        shutil.rmtree(work)
    for rel, text in files.items():
        p = work / rel
        p.parent.mkdir(parents=True, exist_ok=True)
        p.write_text(text)
    p = Parser()
    p.logger.setLevel(logging.CRITICAL)
    for h in list(p.logger.handlers):
        p.logger.removeHandler(h)
    p.parse(work / root)
    return p.message_defs[name].hash[:8]


def run_case(case, tier):
    res = {"violations": [], "counters": {}, "sets": {}, "sig": None, "nontrivial": False}
    V, C = res["violations"], res["counters"]
    rng = random.Random(case["seed"])
    work = Path(os.environ["VF_SCRATCH"]) / f"c13-{os.getpid()}-{case['n']}"
    try:
        if case["mode"] == "stab":
            t = gen_target(rng)
            res["sig"] = sig_of(t)
            res["nontrivial"] = bool(t["fields"])
            hs = {}
            for v in VARIANTS:
                files, root = surround(t, rng, v)
                try:
                    hs[v] = parse_hash(files, root, t["name"], work)
                except Exception as e:
                    V.append({"mech": "variant_rejected", "detail": f"{v}: {type(e).__name__}: {str(e)[:200]}"})
            C["relocations_compared"] = len(hs)
            if len(set(hs.values())) > 1:
                ref = hs.get("plain")
                bad = [v for v, h in hs.items() if h != ref]
                V.append({"mech": "hash_depends_on_surroundings:" + bad[0], "detail": f"{render(t)!r}: hashes {hs}"})
            h0 = hs.get("plain")
            for kind, e in edits(t, rng):
                files, root = surround(e, rng, "plain")
                try:
                    h = parse_hash(files, root, e["name"], work)
                except Exception as ex:
                    V.append({"mech": "variant_rejected", "detail": f"edit {kind}: {type(ex).__name__}: {str(ex)[:200]}"})
                    continue
                C["edits_compared"] = C.get("edits_compared", 0) + 1
                res["sets"].setdefault("edit_kinds", []).append(kind)
                if h == h0:
                    # a 32-bit collision is possible in principle: re-check with a second, different edit of the same kind
                    e2 = dict(e, id=e["id"] + 1) if kind != "id_change" else dict(e, id=e["id"] + 7)
                    files2, root2 = surround(e2, rng, "plain")
                    h2 = parse_hash(files2, root2, e2["name"], work)
                    if h2 == h0 or kind != "id_change":
                        V.append({"mech": f"edit_not_reflected_in_hash:{kind}", "detail": f"original {render(t)!r} and edited {render(e)!r} both hash to {h0}"})
            if case["n"] % 37 == 0:
                res["sample"] = {"target": render(t), "hash": h0, "variants": VARIANTS, "edits": [k for k, _ in edits(t, rng)]}
            return res
        if case["mode"] == "proc":
            prog = G.gen_program(case["seed"], allow_known=False, long_names=0.3, section_names=0.25)   # many long identifiers: column-aligned outputs
            res["sig"] = sig_of(prog["files"])
            res["nontrivial"] = True
            sets = []
            # (the last one with the compiler's --debug switch: what is traced has no say in what is hashed)
            for k, (hs, cli, cwd) in enumerate([("0", True, None), ("1", True, "/"), (str(rng.randint(2, 10 ** 6)), False, str(Path(os.environ["VF_SCRATCH"]))),
                                                ("random", True, None), ("0", True, None)]):
                w = work / f"v{k}"
                b = CR.build(prog, w, langs=("py", "c", "js", "mat") if k == 0 else ("py",), cli=cli, hashseed=hs, cwd=cwd, extra=("--debug",) if k == 4 else ())
                if b.rc != 0:
                    V.append({"mech": "compile_failed:" + str(b.failure), "detail": b.text[-300:]})
                    continue
                py = L.load_py(b.out / "out.py", w)
                if not py.get("ok"):
                    V.append({"mech": "output_does_not_load:python", "detail": str(py.get("error"))[:300]})
                    continue
                hashes = {n: c["type_hash"] for n, c in py["classes"].items() if c["is_message"]}
                sets.append(hashes)
                if k == 0:
                    Ld = CR.load_all(b, want=("c", "js", "mat"))
                    for n, h in hashes.items():
                        nm = n[4:]
                        if n.startswith("MDF_") and nm in prog["desc"]["defs"]:
                            got = {"c": Ld["c"].get("defines", {}).get("HASH_" + nm) if Ld["c"].get("ok") else None,
                                   "javascript": int(Ld["js"]["HASH"][nm], 16) if Ld["js"].get("ok") and nm in Ld["js"].get("HASH", {}) else None,
                                   "matlab": (lambda v: int(v["v"], 16) if v and "v" in v else None)(L.ml_value(Ld["mat"]["env"], ["hash", nm]))}
                            C["output_hashes_compared"] = C.get("output_hashes_compared", 0) + 3
                            for lang, g in got.items():
                                if g != h:
                                    V.append({"mech": f"hash_differs:python_vs_{lang}", "detail": f"{nm}: python {h:#x} vs {lang} {g}"})
            C["subprocess_hash_sets"] = len(sets)
            for s in sets[1:]:
                if s != sets[0]:
                    diff = [n for n in s if s.get(n) != sets[0].get(n)]
                    V.append({"mech": "hash_depends_on_process", "detail": f"hashes differ between runs (PYTHONHASHSEED / cwd / entry point / --debug): {diff[:5]}"})
            return res
        if case["mode"] == "resend":
            return run_resend(case, res, rng, work)
        if case["mode"] == "rebuild":
            return run_rebuild(case, res, rng, work)
        return run_send(case, res)
    finally:
        shutil.rmtree(work, ignore_errors=True)


def run_rebuild(case, res, rng, work):
    """one project directory rebuilt in place: after every edit of a definition file (in the root file, in an imported
    file beside it or in an imported file in another directory) the project is compiled again into the output directory
    that already holds the previous build. The hashes in every output must be those of the definition text as it is
    now. The last step puts the first revision back with its old modification time (cp -p, rsync -t, an unpacked
    archive), so the definition files are then all older than the outputs of the previous build."""
    V, C = res["violations"], res["counters"]
    while True:
        t = gen_target(rng)
        if all(ord(ch) < 128 for ch in t["name"] + "".join(f[0] for f in t["fields"])):
            break
    variant = case["variant"]
    res["sig"] = sig_of([t, variant, case["cli"]])
    res["nontrivial"] = True
    steps = [("original", t)] + rng.sample(edits(t, rng), 2) + [("first_revision_restored_with_its_old_mtime", t)]
    src, out = work / "src", work / "out"
    out.mkdir(parents=True)
    sc = work / "load"
    sc.mkdir()
    first_mtime = {}
    for n, (kind, e) in enumerate(steps):
        files, root = surround(e, rng, variant)
        for rel, text in files.items():
            q = src / rel
            q.parent.mkdir(parents=True, exist_ok=True)
            if not q.exists() or q.read_text() != text:
                q.write_text(text)
                if n == 0:
                    first_mtime[rel] = q.stat().st_mtime_ns
                elif n == len(steps) - 1:
                    os.utime(q, ns=(first_mtime[rel], first_mtime[rel]))
        want = int(parse_hash(files, root, e["name"], work / "ref"), 16)
        rc, text = L.compile_closure(src / root, out, name="out", langs=("py", "c", "js", "mat", "combined"), cli=case["cli"])
        if rc != 0:
            V.append({"mech": "variant_rejected", "detail": f"rebuild step {kind}: {text[-200:]}"})
            return res
        nm = e["name"]
        py = L.load_py(out / "out.py", sc)
        c = L.load_c(out / "out.h", CR.prelude_path(), sc)
        js = L.load_js(out / "out.js", sc)
        mat = L.load_matlab(out / "out.m")
        got = {"python": py["classes"].get("MDF_" + nm, {}).get("type_hash") if py.get("ok") else None,
               "c": c.get("defines", {}).get("HASH_" + nm) if c.get("ok") else None,
               "javascript": int(js["HASH"][nm], 16) if js.get("ok") and nm in js.get("HASH", {}) else None,
               "matlab": (lambda v: int(v["v"], 16) if v and "v" in v else None)(L.ml_value(mat["env"], ["hash", nm])) if mat.get("ok") else None}
        for lang, g in got.items():
            C["rebuilt_output_hashes_compared"] = C.get("rebuilt_output_hashes_compared", 0) + 1
            if g != want:
                V.append({"mech": f"stale_hash_after_rebuild_in_place:{'restored' if n == len(steps) - 1 else 'edit'}",
                          "detail": f"placement {variant}, step {n} ({kind}), cli={case['cli']}: {lang} output says "
                                    f"{g if g is None else hex(g)} for {nm}, the definition text now hashes to {want:#x}"})
        res["sets"].setdefault("rebuild_steps", []).append(f"{variant}:{kind if n in (0, len(steps) - 1) else 'edit'}")
    return res


def run_resend(case, res, rng, work):
    """one long-lived Client sends instances of successive edits of one definition (compiled and imported while it
    stays connected): each outgoing header must carry the hash of the definition of the object being sent"""
    import importlib.util
    import sys
    import ctypes
    from vf.checks.c08 import Peer
    from pyrtma.client import Client
    warnings.simplefilter("ignore")
    V, C = res["violations"], res["counters"]
    tc = bool(case["tc"])
    t = gen_target(rng)
    res["sig"] = sig_of([t, tc])
    variants = [("original", t)] + [(k, e) for k, e in edits(t, rng)]
    rng.shuffle(variants)
    variants = variants + [variants[0]]      # and back to an earlier definition
    built = []
    for n, (kind, e) in enumerate(variants):
        files, root = surround(e, rng, "plain")
        w = work / f"r{n}"
        for rel, text in files.items():
            q = w / "src" / rel
            q.parent.mkdir(parents=True, exist_ok=True)
            q.write_text(text)
        (w / "out").mkdir(parents=True, exist_ok=True)
        rc, text = L.compile_closure(w / "src" / root, w / "out", name="out", langs=("py",))
        if rc != 0:
            V.append({"mech": "variant_rejected", "detail": f"edit {kind}: {text[-200:]}"})
            continue
        modname = f"vf_c13_resend_{os.getpid()}_{case['n']}_{n}"
        spec = importlib.util.spec_from_file_location(modname, w / "out" / "out.py")
        mod = importlib.util.module_from_spec(spec)
        sys.modules[modname] = mod
        spec.loader.exec_module(mod)
        built.append((kind, e, getattr(mod, "MDF_" + e["name"])))
    peer = Peer(tc)
    c = Client(module_id=0, timecode=tc)
    try:
        c.connect(f"127.0.0.1:{peer.port}")
        peer.hs.join(5)
        if peer.err:
            res["inconclusive"] = "peer handshake failed: " + str(peer.err)
            return res
        H = 56 if tc else 48
        for kind, e, cls in built:
            c.send_message(cls())
        want = sum(H + ctypes.sizeof(cls) for _, _, cls in built)
        buf = bytearray()
        peer.conn.settimeout(5.0)
        while len(buf) < want:
            d = peer.conn.recv(1 << 20)
            if not d:
                break
            buf += d
        frames, left = W.parse_frames(bytes(buf), tc)
        if len(frames) != len(built):
            V.append({"mech": "frames_missing", "detail": f"client sent {len(built)} messages, peer parsed {len(frames)} frames"})
        for f, (kind, e, cls) in zip(frames, built):
            C["resend_frames_captured"] = C.get("resend_frames_captured", 0) + 1
            res["nontrivial"] = True
            res["sets"].setdefault("resend_edit_kinds", []).append(kind)
            if f.msg_type != cls.type_id:
                V.append({"mech": "frame_type_mismatch", "detail": f"{cls.__name__}: {f.msg_type}"})
            elif f.reserved != cls.type_hash:
                V.append({"mech": "header_version_stale_after_redefinition",
                          "detail": f"{cls.__name__} after edit '{kind}' sent by a long-lived client: header.version "
                                    f"{f.reserved:#x} != type_hash {cls.type_hash:#x} of the object sent (timecode={tc})"})
        return res
    finally:
        try:
            c._sock.close()
            c._connected = False
            for h in list(c.logger.logger.handlers):
                c.logger.logger.removeHandler(h)
        except Exception:
            pass
        peer.shutdown()


def run_send(case, res):
    from vf.checks.c08 import Peer
    from vf.checks.c10 import load_sources
    from pyrtma.client import Client
    from pyrtma.message_data import MessageData
    import pyrtma.message as pm
    import ctypes
    warnings.simplefilter("ignore")
    V, C = res["violations"], res["counters"]
    tc = bool(case["tc"])
    src = load_sources()
    classes = [c for k in ("core", "tests", "fixture") for c in src.get(k, []) if issubclass(c, MessageData) and getattr(c, "type_id", -1) >= 0]
    mine = [c for i, c in enumerate(classes) if i % case["nchunks"] == case["chunk"]]
    res["sig"] = sig_of([case["chunk"], tc, len(mine)])
    peer = Peer(tc)
    c = Client(module_id=0, timecode=tc)
    try:
        c.connect(f"127.0.0.1:{peer.port}")
        peer.hs.join(5)
        if peer.err:
            res["inconclusive"] = "peer handshake failed: " + str(peer.err)
            return res
        H = 56 if tc else 48
        sent = []
        for cls in mine:
            m = cls()
            c.send_message(m)
            sent.append(cls)
        # read everything the client wrote
        want = sum(H + ctypes.sizeof(x) for x in sent)
        buf = bytearray()
        peer.conn.settimeout(5.0)
        while len(buf) < want:
            d = peer.conn.recv(1 << 20)
            if not d:
                break
            buf += d
        frames, left = W.parse_frames(bytes(buf), tc)
        if len(frames) != len(sent):
            V.append({"mech": "frames_missing", "detail": f"client sent {len(sent)} messages, peer parsed {len(frames)} frames"})
        for f, cls in zip(frames, sent):
            C["frames_captured"] = C.get("frames_captured", 0) + 1
            res["nontrivial"] = True
            if f.msg_type != cls.type_id:
                V.append({"mech": "frame_type_mismatch", "detail": f"{cls.__name__}: {f.msg_type}"})
            elif f.reserved != cls.type_hash:
                V.append({"mech": "header_version_not_type_hash", "detail": f"{cls.__name__}: header.version {f.reserved:#x} != type_hash {cls.type_hash:#x} (timecode={tc})"})
        if case["n"] % 4 == 0:
            res["sample"] = {"sent": [x.__name__ for x in sent[:6]], "timecode": tc}
        return res
    finally:
        try:
            c._sock.close()
            c._connected = False
            for h in list(c.logger.logger.handlers):
                c.logger.logger.removeHandler(h)
        except Exception:
            pass
        peer.shutdown()
