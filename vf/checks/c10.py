"""C10 — serialisation round-trips are the identity.

Every message / struct class of the shipped core definitions, of tests/test_msg_defs and of a compiler-generated
fixture is instantiated, filled through the validated field API on a fresh instance, and pushed through every
conversion path; the monitor compares bytes(original) with bytes(decoded), and checks storage independence of
copies by mutate-and-compare in both directions. Version refusal of Message.from_json is probed with right,
zero and wrong hashes.
"""
from __future__ import annotations

import ctypes
import os
import importlib
import importlib.util
import json
import random
import sys

from vf.driver import sig_of
from vf.rig import field_rig

ID = "C10"
LEVEL = "exploration"
RULE = ("cases = (class of core_defs | tests/test_msg_defs | generated fixture) x fill mode {from_random, all-min, all-max, "
        "zeros, -0.0/NaN/subnormal/max-finite floats, empty / maximum-length strings, every ASCII code 1..127 incl. control "
        "characters, quotes and backslashes, all-0x00 / all-0xFF byte arrays} x path {bytes, dict, JSON minified, JSON indented, "
        "header+data JSON, header+data dict, copy}; non-trivial = instance with at least one non-zero byte; distinct = "
        "(class, fill mode, seed)")
ASSUMPTIONS = ["strings with an embedded NUL are excluded (NUL terminates the char-array domain)",
               "values are written through the validated API on a fresh instance, so bytes after a terminator are zero"]
REQUIRE = {"messages_under_timecode_header": 500, "earlier_exports_with_other_json_options": 10, "instances": 3000, "roundtrips_compared": 15000, "copies_checked": 3000, "version_checks": 500}
CASE_TIMEOUT = 120
MODES = ["random", "min", "max", "zero", "floats", "str_empty", "str_full", "ascii", "bytes00", "bytesff", "random", "random"]
FLOATS32 = [-0.0, float("nan"), 1.401298464324817e-45, 3.4028234663852886e38, -3.4028234663852886e38, 1.1754943508222875e-38, 0.1]
FLOATS64 = [-0.0, float("nan"), 5e-324, 1.7976931348623157e308, -1.7976931348623157e308, 2.2250738585072014e-308, 0.1, 1e-300]
INT_T = {ctypes.c_int8: (8, True), ctypes.c_uint8: (8, False), ctypes.c_int16: (16, True), ctypes.c_uint16: (16, False),
         ctypes.c_int32: (32, True), ctypes.c_uint32: (32, False), ctypes.c_int64: (64, True), ctypes.c_uint64: (64, False)}


NGEN = 4


def prepare(tier, seed, scratch):
    field_rig.build(scratch)
    field_rig.build_twin(scratch)
    # a few generated definition closures (aliases, nested messages, field-list reuse, automatic padding, long and
    # mixed-case names ...) compiled with the real compiler: their classes are exercised like the shipped ones
    from vf.gen import defs as G
    from vf.loaders import langs as L
    from pathlib import Path
    built = 0
    for k in range(NGEN * 3):
        if built == NGEN:
            break
        prog = G.gen_program(f"c10-{seed}-{k}", allow_known=False, tag=f"G{built}")
        d = Path(scratch) / f"gen{built}"
        if d.exists():
            import shutil
            shutil.rmtree(d)
        root = G.write_closure(prog, d / "src")
        (d / "out").mkdir(parents=True, exist_ok=True)
        rc, txt = L.compile_closure(root, d / "out", name=f"vf_gen{built}", langs=("py",))
        if rc == 0:
            built += 1


def load_sources():
    """name -> list of (class, is_message)"""
    import pyrtma.core_defs as cd
    from pyrtma.message_base import MessageBase
    from pyrtma.message_data import MessageData
    mods = {"core": cd}
    spec = importlib.util.spec_from_file_location("vf_test_defs", os.environ.get("VF_REPO", "/repo") + "/tests/test_msg_defs/test_defs.py")
    try:
        m = importlib.util.module_from_spec(spec)
        sys.modules["vf_test_defs"] = m
        spec.loader.exec_module(m)
        mods["tests"] = m
    except Exception:
        pass
    try:
        mods["fixture"] = field_rig.load()[0]
    except Exception:
        pass
    try:
        mods["twin"] = field_rig.load_twin()     # same class names as the fixture, other fields: both live in this process
    except Exception:
        pass
    base = os.environ.get("VF_SCRATCH", "")
    for k in range(NGEN):
        path = os.path.join(base, f"gen{k}", "out", f"vf_gen{k}.py")
        if base and os.path.exists(path):
            try:
                spec = importlib.util.spec_from_file_location(f"vf_gen{k}", path)
                m = importlib.util.module_from_spec(spec)
                sys.modules[f"vf_gen{k}"] = m
                spec.loader.exec_module(m)
                mods[f"gen{k}"] = m
            except Exception:
                pass
    out = {}
    for key, m in mods.items():
        lst = []
        for n, v in sorted(vars(m).items()):
            if isinstance(v, type) and issubclass(v, MessageBase) and v not in (MessageBase, MessageData) and v.__module__ == m.__name__:
                lst.append(v)
        out[key] = lst
    return out


def irange(bits, signed):
    return (-(1 << (bits - 1)), (1 << (bits - 1)) - 1) if signed else (0, (1 << bits) - 1)


def ascii_sweep(n, start):
    return "".join(chr(1 + (start + i) % 127) for i in range(n))


def fill(obj, mode, rng, depth=0):
    for _name, ftype, *_ in obj._fields_:
        name = _name[1:] if _name[0] == "_" else _name
        if issubclass(ftype, ctypes.Structure):
            fill(getattr(obj, name), mode, rng, depth + 1)
        elif issubclass(ftype, ctypes.Array):
            n, et = ftype._length_, ftype._type_
            if issubclass(et, ctypes.Structure):
                for i in range(n):
                    fill(getattr(obj, name)[i], mode, rng, depth + 1)
            elif et is ctypes.c_char:
                if mode == "str_empty" or mode == "zero":
                    s = ""
                elif mode == "str_full":
                    s = "x" * (n - 1)
                elif mode == "ascii":
                    s = ascii_sweep(n - 1, rng.randrange(127))
                elif mode in ("min", "max"):
                    s = ('"\\' * n)[:n - 1] if mode == "min" else ("\x7f\x01\t\n\r'" * n)[:n - 1]
                elif mode == "floats":
                    # texts that mean something to a JSON reader or writer, next to the special float values of this mode
                    s = rng.choice(["NaN", "Infinity", "-Infinity", "null", "true", '{"z": NaN}', "NaN NaN", "1e999", "nan"])[:n - 1]
                else:
                    s = "".join(rng.choice("abcXYZ 0129_-\"\\/{}[]:,'\t\n") for _ in range(rng.randint(0, n - 1)))
                setattr(obj, name, s)
            elif et in INT_T:
                lo, hi = irange(*INT_T[et])
                if mode == "min":
                    vals = [lo] * n
                elif mode == "max" or mode == "bytesff":
                    vals = [hi] * n
                elif mode in ("zero", "bytes00"):
                    vals = [0] * n
                else:
                    vals = [rng.choice([lo, hi, 0, rng.randint(lo, hi)]) for _ in range(n)]
                getattr(obj, name)[:] = vals
            elif et in (ctypes.c_float, ctypes.c_double):
                pool = FLOATS32 if et is ctypes.c_float else FLOATS64
                if mode == "floats":
                    vals = [pool[(i + depth) % len(pool)] for i in range(n)]
                elif mode == "zero":
                    vals = [0.0] * n
                elif mode == "min":
                    vals = [pool[4]] * n
                elif mode == "max":
                    vals = [pool[3]] * n
                else:
                    vals = [rng.choice(pool + [rng.uniform(-1e6, 1e6), float(rng.randint(-5, 5))]) for _ in range(n)]
                getattr(obj, name)[:] = vals
        elif ftype is ctypes.c_char:
            if mode not in ("zero", "str_empty"):  # '' is not assignable to a scalar char (left at its default)
                setattr(obj, name, chr(rng.randint(1, 127)) if mode != "min" else '"')
        elif ftype in INT_T:
            lo, hi = irange(*INT_T[ftype])
            v = lo if mode == "min" else hi if mode in ("max", "bytesff") else 0 if mode in ("zero", "bytes00") else rng.choice([lo, hi, 0, -1 if lo < 0 else 1, rng.randint(lo, hi)])
            setattr(obj, name, v)
        elif ftype in (ctypes.c_float, ctypes.c_double):
            pool = FLOATS32 if ftype is ctypes.c_float else FLOATS64
            v = rng.choice(pool) if mode in ("floats", "random") else 0.0 if mode == "zero" else pool[4] if mode == "min" else pool[3] if mode == "max" else rng.uniform(-1e3, 1e3)
            setattr(obj, name, v)
    return obj


def gen_cases(tier, seed):
    rng = random.Random(f"c10-{seed}")
    src = {"core": 0, "tests": 0, "fixture": 0, "twin": 0}
    gens = [f"gen{k}" for k in range(NGEN)]
    cases = []
    reps = 2 if tier == "quick" else 200
    # class lists are resolved in the worker (by index modulo); here only descriptors
    for source in ["core", "tests", "fixture", "twin"] + gens:
        for chunk in range(16 if source in ("core", "tests") else 4):
            for r in range(reps):
                cases.append({"source": source, "chunk": chunk, "nchunks": 16 if source in ("core", "tests") else 4, "seed": rng.getrandbits(32)})
    return cases


_SRC = None


def run_case(case, tier):
    global _SRC
    import pyrtma
    from pyrtma.message import Message, get_header_cls
    from pyrtma.exceptions import InvalidMessageDefinition
    from pyrtma.message_data import MessageData
    if _SRC is None:
        _SRC = load_sources()
    res = {"violations": [], "counters": {}, "sets": {}, "sig": sig_of({k: case[k] for k in case if k != "n"}), "nontrivial": False}
    V, C = res["violations"], res["counters"]

    def bump(k, n=1):
        C[k] = C.get(k, 0) + n

    classes = _SRC.get(case["source"], [])
    if not classes:
        res["inconclusive"] = f"no classes could be loaded for source {case['source']}"
        return res
    mine = [c for i, c in enumerate(classes) if i % case["nchunks"] == case["chunk"]]
    rng = random.Random(case["seed"])
    random.seed(case["seed"])
    namesakes = {c.__name__: c for c in _SRC.get({"twin": "fixture", "fixture": "twin"}.get(case["source"], ""), [])}
    if case.get("n", 0) % 3 == 1 and mine:
        # an earlier, unrelated export with other json.dumps options (strict JSON for a browser, sorted keys, ...) in this
        # process: options given to one call are that call's business only
        try:
            z = next((c for c in mine if ctypes.sizeof(c)), mine[0])()
            z.to_json(allow_nan=False, sort_keys=True)
            z.to_json(minify=True, allow_nan=False, ensure_ascii=True)
            if issubclass(type(z), MessageData) and getattr(type(z), "type_id", -1) >= 0:
                hz = get_header_cls(False)()
                hz.msg_type = type(z).type_id
                hz.num_data_bytes = ctypes.sizeof(z)
                Message(hz, z).to_json(allow_nan=False, sort_keys=True)
                Message(hz, z).to_json(minify=True, allow_nan=False)
            bump("earlier_exports_with_other_json_options")
        except Exception as e:
            V.append({"mech": "export_with_json_options_raises", "detail": f"{type(e).__name__}: {str(e)[:200]}"})
    for cls in mine:
        if cls.__name__ in namesakes:
            # a class of the same name with other fields (from the other definition file) is converted first in this process
            try:
                nb = namesakes[cls.__name__]()
                nb.from_dict(nb.to_dict()) if hasattr(nb, "from_dict") else None
                bump("namesake_conversions")
            except Exception:
                pass
        if ctypes.sizeof(cls) == 0:
            modes = ["zero"]
        else:
            modes = MODES
        for mode in modes:
            try:
                m = cls.from_random() if mode == "random" and rng.random() < 0.5 else fill(cls(), mode, rng)
            except Exception as e:
                V.append({"mech": "fill_through_validated_api_failed", "detail": f"{cls.__name__} mode {mode}: {type(e).__name__}: {e}"[:300]})
                continue
            raw = bytes(m)
            bump("instances")
            if any(raw):
                res["nontrivial"] = True
            res["sets"].setdefault("class_mode", []).append([cls.__name__, mode])

            def cmp(path, f):
                bump("roundtrips_compared")
                try:
                    got = f()
                except Exception as e:
                    V.append({"mech": f"roundtrip_raises:{path}", "detail": f"{cls.__name__} mode {mode}: {type(e).__name__}: {str(e)[:200]}"})
                    return
                if bytes(got) != raw:
                    a, b = bytes(got), raw
                    i = next((k for k in range(min(len(a), len(b))) if a[k] != b[k]), min(len(a), len(b)))
                    V.append({"mech": f"roundtrip_differs:{path}:{culprit(cls, i)}", "detail": f"{cls.__name__} mode {mode}: first difference at byte {i} "
                                                                                              f"({b[i:i + 8].hex()} became {a[i:i + 8].hex()}), sizes {len(b)}->{len(a)}"})

            cmp("bytes", lambda: cls.from_buffer_copy(raw))
            cmp("dict", lambda: cls.from_dict(m.to_dict()))
            cmp("json_min", lambda: cls.from_json(m.to_json(minify=True)))
            cmp("json_indent", lambda: cls.from_json(m.to_json()))
            if rng.random() < 0.3:
                # options json.dumps accepts and to_json documents: the text changes, the message it describes does not
                cmp("json_sorted_keys", lambda: cls.from_json(m.to_json(sort_keys=True)))
                cmp("json_min_sorted_ascii", lambda: cls.from_json(m.to_json(minify=True, sort_keys=True, ensure_ascii=False)))
            # storage independence of copies
            bump("copies_checked")
            try:
                c = cls.copy(m)
                if bytes(c) != raw:
                    V.append({"mech": "copy_differs", "detail": f"{cls.__name__} mode {mode}"})
                if len(raw):
                    flip(c)
                    if bytes(m) != raw:
                        V.append({"mech": "copy_shares_storage", "detail": f"{cls.__name__}: mutating the copy changed the original"})
                    c2 = cls.copy(m)
                    flip(m)
                    if bytes(c2) != raw:
                        V.append({"mech": "copy_shares_storage", "detail": f"{cls.__name__}: mutating the original changed the copy"})
                    flip(m)
            except Exception as e:
                V.append({"mech": "copy_raises", "detail": f"{cls.__name__}.copy: {type(e).__name__}: {str(e)[:200]}"})
            # header + data paths (message classes only)
            if isinstance(m, MessageData) and getattr(cls, "type_id", -1) >= 0 and pyrtma.message._msg_defs.get(cls.type_id) is cls:
                # (every other instance travels under the timecode header layout)
                H = get_header_cls(bool(C.get("instances", 0) % 2))
                h = H()
                if H is not get_header_cls():
                    bump("messages_under_timecode_header")
                    h.utc_seconds, h.utc_fraction = rng.choice([0, 1, 2 ** 32 - 1, rng.getrandbits(32)]), rng.choice([0, 2 ** 32 - 1, rng.getrandbits(32)])
                h.msg_type = cls.type_id
                h.msg_count = rng.randint(0, 2 ** 31 - 1)
                # every value the validated header API accepts, specials included
                for fld in ("send_time", "recv_time"):
                    for v in rng.sample([0.0, 1.5, 1e300, -0.0, float("nan"), float("inf"), float("-inf"), 5e-324,
                                         1.7976931348623157e308, rng.random(), -rng.random() * 1e9], 11):
                        try:
                            setattr(h, fld, v)
                            break
                        except (ValueError, TypeError):
                            continue
                for fld, hi in (("remaining_bytes", 2 ** 31 - 1), ("is_dynamic", 1), ("reserved", 2 ** 32 - 1)):
                    if hasattr(h, fld) and rng.random() < 0.5:
                        try:
                            setattr(h, fld, rng.choice([0, 1, hi]))
                        except (ValueError, TypeError):
                            pass
                h.src_host_id, h.src_mod_id, h.dest_host_id, h.dest_mod_id = rng.randint(0, 5), rng.randint(0, 200), 0, rng.randint(0, 200)
                h.num_data_bytes = ctypes.sizeof(cls)
                h.version = rng.choice([0, cls.type_hash])
                M = Message(h, m)
                hraw = bytes(h)

                def cmpM(path, f):
                    bump("roundtrips_compared")
                    try:
                        got = f()
                    except Exception as e:
                        V.append({"mech": f"roundtrip_raises:{path}", "detail": f"{cls.__name__} mode {mode}: {type(e).__name__}: {str(e)[:200]}"})
                        return
                    if bytes(got.header) != hraw or bytes(got.data) != raw:
                        V.append({"mech": f"roundtrip_differs:{path}", "detail": f"{cls.__name__} mode {mode}: header equal={bytes(got.header) == hraw} data equal={bytes(got.data) == raw}"})

                cmpM("message_json_indent", lambda: Message.from_json(M.to_json()))
                cmpM("message_json_min", lambda: Message.from_json(M.to_json(minify=True)))
                if rng.random() < 0.3:
                    cmpM("message_json_sorted_keys", lambda: Message.from_json(M.to_json(sort_keys=True)))
                    cmpM("message_json_min_sorted_keys", lambda: Message.from_json(M.to_json(minify=True, sort_keys=True)))

                def via_dict():
                    d = M.to_dict()
                    return Message(H.from_dict(d["header"]), cls.from_dict(d["data"]))

                cmpM("message_dict", via_dict)
                # the same Message object is changed through the validated API and converted again: every conversion
                # describes the object as it is now
                try:
                    M.header.msg_count = (M.header.msg_count + 12345) % (2 ** 31)
                    M.header.dest_mod_id = (M.header.dest_mod_id + 1) % 200
                    m2 = fill(cls(), "random", rng)
                    M.data = m2
                    hraw_old, raw_old = hraw, raw
                    hraw, raw = bytes(M.header), bytes(M.data)
                    cmpM("message_json_min_after_change", lambda: Message.from_json(M.to_json(minify=True)))
                    cmpM("message_json_indent_after_change", lambda: Message.from_json(M.to_json()))
                    cmpM("message_dict_after_change", via_dict)
                    bump("conversions_after_change", 3)
                    M.header.msg_count = h.msg_count
                    hraw, raw = bytes(M.header), bytes(M.data)
                    m = M.data
                except Exception as e:
                    V.append({"mech": "change_after_conversion_failed", "detail": f"{cls.__name__}: {type(e).__name__}: {str(e)[:200]}"})
                if len(raw):
                    # a message put together by hand around a fresh header (num_data_bytes still 0): its copy is a copy all the same
                    try:
                        M0 = Message(H(), cls.from_buffer_copy(raw))
                        MC0 = Message.copy(M0)
                        flip(MC0.data)
                        bump("copies_checked")
                        if bytes(M0.data) != raw or MC0.data is M0.data:
                            V.append({"mech": "copy_shares_storage", "detail": f"Message.copy of {cls.__name__} under a header that was never filled in: mutating the copy changed the original"})
                    except Exception as e:
                        V.append({"mech": "message_copy_raises", "detail": f"Message.copy({cls.__name__}) under a fresh header: {type(e).__name__}: {str(e)[:160]}"})
                bump("copies_checked")
                try:
                    MC = Message.copy(M)
                    if bytes(MC.header) != hraw or bytes(MC.data) != raw:
                        V.append({"mech": "message_copy_differs", "detail": f"{cls.__name__}"})
                    elif len(raw):
                        flip(MC.data)
                        flip(MC.header)
                        if bytes(M.data) != raw or bytes(M.header) != hraw:
                            V.append({"mech": "copy_shares_storage", "detail": f"Message.copy of {cls.__name__}: mutating the copy changed the original"})
                except Exception as e:
                    V.append({"mech": "message_copy_raises", "detail": f"Message.copy({cls.__name__}): {type(e).__name__}: {str(e)[:160]}"})
                # version refusal
                for ver, must in ((0, "accept"), (cls.type_hash, "accept"), ((cls.type_hash ^ 0x1) or 2, "refuse"), ((cls.type_hash + 0x10000) & 0xFFFFFFFF or 3, "refuse"),
                                  (cls.type_id or 7, "refuse"), (ctypes.sizeof(cls) or 9, "refuse"), (0xFFFFFFFF, "refuse")):
                    bump("version_checks")
                    h.version = ver
                    s = Message(h, m).to_json(minify=True)
                    try:
                        Message.from_json(s)
                        ok = True
                    except InvalidMessageDefinition:
                        ok = False
                    except Exception as e:
                        V.append({"mech": "version_check_raises_other", "detail": f"{cls.__name__} version {ver:#x}: {type(e).__name__}"})
                        continue
                    if must == "refuse" and ok and ver != cls.type_hash and ver != 0:
                        V.append({"mech": "wrong_version_accepted", "detail": f"{cls.__name__}: header version {ver:#x} != local {cls.type_hash:#x} was decoded"})
                    if must == "accept" and not ok:
                        V.append({"mech": "right_version_refused", "detail": f"{cls.__name__}: header version {ver:#x} (local {cls.type_hash:#x}) was refused"})
    if case.get("n", 0) % 9 == 0:
        res["sample"] = {"source": case["source"], "classes": [c.__name__ for c in mine[:6]], "modes": MODES[:6]}
    return res


def flip(obj):
    b = (ctypes.c_ubyte * ctypes.sizeof(obj)).from_buffer(obj)
    for i in range(len(b)):
        b[i] ^= 0xFF


def culprit(cls, off):
    """name the ctypes element type at byte offset off (for mechanism keys)"""
    try:
        for _name, ftype, *_ in cls._fields_:
            meta = getattr(cls, _name)
            if meta.offset <= off < meta.offset + meta.size:
                t = ftype
                while issubclass(t, ctypes.Array):
                    t = t._type_
                if issubclass(t, ctypes.Structure):
                    return "struct"
                return t.__name__
    except Exception:
        pass
    return "?"
