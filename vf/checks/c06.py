"""C06 — module identity: unique ids, sound dynamic ids, options honoured.

Monitors: the handshake outcome of every connection request (ACK with dest_mod_id, or closure) compared with
the IdentityModel decision (must-accept / must-refuse / don't-care) replayed in service order; CLIENT_INFO
frames at a raw monitor client (mod_id, is_logger, is_unique, name) compared with the options passed through
every public entry point (raw protocol v1 / v2, Client.connect, client_context); directed messages to an
incumbent after a refused request; Module.is_daemon read from manager state (the only place it shows).
"""
from __future__ import annotations

import random
import time
import warnings

from vf.rig import wire as W
from vf.rig.manager_rig import ManagerRig
from vf.rig.scenario import Scenario, stream_checks
from vf.models.router import ALL
from vf.driver import sig_of

ID = "C06"
LEVEL = "exploration"
RULE = ("raw cases: sequences of connects/disconnects by 2-8 clients over requested id {0,1,10,99,100,101,199,200,-1,32767}"
        " x allow-multiple x name {empty, shared, distinct} x protocol {CONNECT only, CONNECT_V2+CONNECT}, interleaved in "
        "prescribed service orders; wrap cases: >=250 dynamic connects with holes; api cases: real Client.connect / "
        "client_context with every keyword option set both ways. Non-trivial = at least one must-refuse and one "
        "must-accept decision were exercised (raw), or an option set to a non-default value (api)")
ASSUMPTIONS = ["don't-care: requested id exactly 100; a unique newcomer re-using the name of a non-unique module; a dynamic "
               "request when all 100 dynamic ids are held (either refusal form)",
               "is_daemon is only visible in manager state (Module.is_daemon); read at quiescence"]
REQUIRE = {"must_refuse_checked": 100, "must_accept_checked": 300, "dynamic_ids_checked": 200, "client_info_compared": 200,
           "api_connects": 40, "api_reconnects": 10}
CASE_TIMEOUT = 150
IDS = [0, 0, 1, 10, 10, 99, 100, 101, 199, 200, -1, 32767, 10, 11]
NAMES = ["", "", "shared", "shared", "n1", "n2"]


def gen_raw(rng):
    steps = [["open", "M"], ["hello", "M", {"mod_id": 50}], ["drain"], ["sub", "M", W.MT_CLIENT_INFO], ["sub", "M", W.MT_CLIENT_CLOSED], ["drain"]]
    live = []
    n = 0
    for _ in range(rng.randint(4, 16)):
        r = rng.random()
        if r < 0.7 or not live:
            L = f"c{n}"
            n += 1
            v2 = rng.random() < 0.7
            o = {"mod_id": rng.choice(IDS), "v2": v2, "logger": int(rng.random() < 0.2), "daemon": int(rng.random() < 0.2),
                 "allow_multiple": int(v2 and rng.random() < 0.4), "name": rng.choice(NAMES) if v2 else "",
                 "pid": rng.randint(1, 99999)}
            steps += [["open", L], ["hello", L, o]]
            live.append(L)
        elif r < 0.85:
            L = rng.choice(live)
            live.remove(L)
            steps.append(rng.choice([["disc", L], ["close", L, "fin"], ["close", L, "rst"]]))
        else:
            steps.append(["drain"])
        if rng.random() < 0.5:
            steps.append(["round", {"seed": rng.getrandbits(30)}])
    steps.append(["drain"])
    return steps


def gen_wrap(rng):
    steps = [["open", "M"], ["hello", "M", {"mod_id": 50}], ["drain"], ["sub", "M", W.MT_CLIENT_INFO], ["drain"]]
    n = 0
    live = []
    total = rng.randint(250, 300)
    while n < total:
        burst = rng.randint(1, 40)
        for _ in range(burst):
            L = f"d{n}"
            n += 1
            steps += [["open", L], ["hello", L, {"mod_id": 0, "v2": rng.random() < 0.8}]]
            live.append(L)
        steps.append(["drain"])
        k = rng.randint(0, min(len(live), 45))
        for L in rng.sample(live, k):
            live.remove(L)
            steps.append(["disc", L] if rng.random() < 0.7 else ["close", L, "rst"])
        steps.append(["drain"])
        if len(live) > 95:
            for L in rng.sample(live, 30):
                live.remove(L)
                steps.append(["disc", L])
            steps.append(["drain"])
    return steps


def gen_full(rng):
    """all 100 dynamic ids in use; one module leaves and a newcomer must get exactly the freed id at once"""
    steps = [["open", "M"], ["hello", "M", {"mod_id": 50}], ["drain"], ["sub", "M", W.MT_CLIENT_INFO], ["drain"]]
    live = []
    for n in range(100):
        L = f"d{n}"
        steps += [["open", L], ["hello", L, {"mod_id": 0, "v2": rng.random() < 0.8}]]
        live.append(L)
        if n % 25 == 24:
            steps.append(["drain"])
    steps.append(["drain"])
    n = 100
    for k in range(rng.randint(4, 8)):
        which = rng.choice(["last", "last", "first", "random"])
        L = live[-1] if which == "last" else live[0] if which == "first" else rng.choice(live)
        live.remove(L)
        steps += [["disc", L] if rng.random() < 0.6 else ["close", L, rng.choice(["fin", "rst"])], ["drain"]]
        if rng.random() < 0.3:
            # one more than fits: must be refused while the table is full again
            pass
        N = f"d{n}"
        n += 1
        steps += [["open", N], ["hello", N, {"mod_id": 0, "v2": rng.random() < 0.8}], ["drain"]]
        live.append(N)
        if rng.random() < 0.4:
            X = f"d{n}"
            n += 1
            steps += [["open", X], ["hello", X, {"mod_id": 0}], ["drain"]]     # table full: refused
    return steps


def gen_cases(tier, seed):
    rng = random.Random(f"c06-{seed}")
    nraw, nwrap, napi = (2500, 6, 24) if tier == "quick" else (120000, 200, 1000)
    cases = []
    for i in range(nraw):
        s = rng.getrandbits(32)
        cases.append({"kind": "raw", "seed": s, "tc": i % 5 == 4, "steps": gen_raw(random.Random(s))})
    for i in range(nwrap):
        s = rng.getrandbits(32)
        cases.append({"kind": "wrap", "seed": s, "tc": False, "steps": gen_wrap(random.Random(s)) if i % 3 else gen_full(random.Random(s)), "timeout": 120})
    for i in range(napi):
        cases.append({"kind": "api", "seed": rng.getrandbits(32), "tc": i % 4 == 3, "nconn": 6, "timeout": 120})
    return cases


def run_case(case, tier):
    if case["kind"] == "api":
        return run_api(case)
    rig = ManagerRig(stepped=True, timecode=bool(case.get("tc")))
    try:
        sc = Scenario(rig, case["seed"])
        sc.max_drain = 400
        sc.run(case["steps"])
        return judge_raw(sc, case)
    finally:
        rig.close()


def judge_raw(sc, case):
    res = {"violations": [], "counters": {}, "sets": {}, "sig": sig_of(case["steps"]), "nontrivial": False}
    V, C = res["violations"], res["counters"]
    if sc.crashed or sc.hung:
        V.append({"mech": "manager_died", "detail": (sc.rig.crash or "hung")[-900:]})
        return res
    rx = sc.received()
    for mech, detail in stream_checks(sc, rx):
        V.append({"mech": "c05:" + mech, "detail": detail})
    infos = [W.unpack_client(f.payload) for f in rx["M"]["frames"] if f.msg_type == W.MT_CLIENT_INFO and len(f.payload) == 80]
    saw_refuse = saw_accept = False
    for rec in sc.rounds:
        for L, d, out in rec["frames"]:
            cs = sc.cl[L]
            if d["kind"] not in ("hello_v2", "hello_v1") or out == "ignored" or L == "M":
                continue
            dec, outc = d.get("decision"), d.get("outcome")
            res["sets"].setdefault("request_shape", []).append([d["kind"], cls_id(d["mod_id"]), d.get("am", 0), bool(d.get("name")), dec])
            if outc == "self_closed":
                C["unobservable_self_closed"] = C.get("unobservable_self_closed", 0) + 1
                continue
            if outc not in ("ack", "closed"):
                V.append({"mech": "handshake_unanswered", "detail": f"{L} {d}: neither acknowledged nor closed"})
                continue
            ctx = f"ids held by others at that moment {d.get('live_ids_before')}, same-id holders (label, unique, closing) {d.get('same_id')}"
            if dec == "refuse":
                saw_refuse = True
                C["must_refuse_checked"] = C.get("must_refuse_checked", 0) + 1
                if outc == "ack":
                    V.append({"mech": "accepted_request_that_must_be_refused:" + refuse_reason(d),
                              "detail": f"{L} requested id {d['mod_id']} allow_multiple={d.get('am', 0)} name={d.get('name', '')!r} via {d['kind']}; "
                                        f"{ctx}; it was acknowledged with id {d.get('ack_dest_mod')}"})
            elif dec == "accept":
                saw_accept = True
                C["must_accept_checked"] = C.get("must_accept_checked", 0) + 1
                if outc != "ack":
                    V.append({"mech": "refused_valid_request", "detail": f"{L} requested id {d['mod_id']} allow_multiple={d.get('am', 0)} "
                                                                         f"name={d.get('name', '')!r} via {d['kind']}; {ctx}; connection was closed"})
            else:
                C["dont_care_decisions"] = C.get("dont_care_decisions", 0) + 1
            if outc == "ack":
                got = d.get("ack_dest_mod")
                unique = not d.get("am", 0)
                if d["mod_id"] == 0:
                    C["dynamic_ids_checked"] = C.get("dynamic_ids_checked", 0) + 1
                    if not (100 <= got <= 199):
                        V.append({"mech": "dynamic_id_out_of_range", "detail": f"{L} asked for a dynamic id and was told {got}"})
                    holders = [x for x in sc.model.mods.values() if x.mod_id == got and x.key != cs.addr and not x.fin]
                    if got in (d.get("live_ids_before") or []) and holders:
                        V.append({"mech": "dynamic_id_in_use", "detail": f"{L} was given dynamic id {got} which a live module holds; {ctx}"})
                    res["sets"].setdefault("dynamic_ids", []).append(got)
                elif got != d["mod_id"]:
                    V.append({"mech": "ack_wrong_id", "detail": f"{L} requested {d['mod_id']} ACK says {got}"})
                for lab, u2, fin in d.get("same_id") or []:
                    if (u2 or unique) and not fin:
                        V.append({"mech": "duplicate_live_id", "detail": f"{L} and {lab} both hold id {d['mod_id']} (unique flags {unique},{u2})"})
                # CLIENT_INFO must describe it as requested
                mine = [x for x in infos if x["port"] == cs.addr[1]]
                if not mine:
                    V.append({"mech": "client_info_missing", "detail": f"no CLIENT_INFO for accepted {L}"})
                else:
                    C["client_info_compared"] = C.get("client_info_compared", 0) + 1
                    want = {"mod_id": cs.mod_id, "is_logger": int(bool(d.get("logger"))), "is_unique": int(unique),
                            "name": (d.get("name", "") if d["kind"] == "hello_v2" else "")}
                    x = mine[0]
                    if sum(1 for o in sc.cl.values() if o.addr[1] == cs.addr[1]) > 1:
                        # the kernel gave this client port to more than one connection of the case (long cases under
                        # port pressure): the announcements for that port belong to several connections; this one must
                        # be among them
                        C["client_info_port_reused"] = C.get("client_info_port_reused", 0) + 1
                        x = next((y for y in mine if {k: y[k] for k in want} == want), mine[-1])
                    have = {k: x[k] for k in want}
                    if have != want:
                        V.append({"mech": "client_info_mismatch", "detail": f"{L}: requested {want} manager announced {have}"})
                try:
                    mod = next(m for s, m in sc.rig.mgr.modules.items() if tuple(getattr(m, 'address', ())) == cs.addr)
                    C["daemon_flags_checked"] = C.get("daemon_flags_checked", 0) + 1
                    if bool(mod.is_daemon) != bool(d.get("daemon")):
                        V.append({"mech": "daemon_flag_mismatch", "detail": f"{L}: daemon={d.get('daemon')} Module.is_daemon={mod.is_daemon}"})
                except StopIteration:
                    pass
                except Exception:
                    pass
            else:
                if not rx[L]["eof"]:
                    V.append({"mech": "refused_connection_left_open", "detail": f"{L}: refused but the connection is still open"})
    res["nontrivial"] = saw_refuse and saw_accept
    C["rounds"] = len(sc.rounds)
    if case.get("n", 0) % 83 == 0:
        res["sample"] = {"steps": case["steps"][:24]}
    return res


def cls_id(i):
    return "dyn" if i == 0 else "bad" if (i < 1 or i > 100) else "hundred" if i == 100 else "user"


def refuse_reason(d):
    i = d["mod_id"]
    if i < 1 or i > 100:
        return "id_out_of_range"
    if d.get("same_id"):
        return "id_in_use"
    return "name_of_unique_module"


# ----------------------------------------------------------------------------------------------- real Client API
def run_api(case):
    import pyrtma
    from pyrtma.client import Client, client_context
    rng = random.Random(case["seed"])
    tc = bool(case.get("tc"))
    rig = ManagerRig(stepped=False, timecode=tc)
    res = {"violations": [], "counters": {}, "sets": {}, "sig": sig_of(case), "nontrivial": False}
    V, C = res["violations"], res["counters"]
    try:
        mon = rig.client("M")
        mon.send_frame(W.MT_CONNECT_V2, W.p_connect_v2(0, 0, 0, 50, 1, b"mon"), src_mod=50)
        mon.send_frame(W.MT_CONNECT, W.p_connect(0, 0), src_mod=50)
        mon.send_frame(W.MT_SUBSCRIBE, W.p_sub(W.MT_CLIENT_INFO))
        server = f"127.0.0.1:{rig.addr[1]}"
        held = []
        warnings.simplefilter("ignore")
        for k in range(case["nconn"]):
            opts = {"logger_status": rng.random() < 0.5, "allow_multiple": rng.random() < 0.5,
                    "name": rng.choice(["", f"nm{k}"]), "module_id": rng.choice([0, 0, 20 + k, 20 + k, [4, 5][k % 2]])}
            if opts["module_id"] in (4, 5) and any(o0["module_id"] == opts["module_id"] for _c, _cm, o0 in held):
                opts["module_id"] = 20 + k     # ids listed in the module-id table (4, 5) are used once per case
            daemon = rng.random() < 0.5
            entry = rng.choice(["connect", "connect_kw", "context"])
            if any(v for k2, v in opts.items()) or daemon:
                res["nontrivial"] = True
            n0 = len(mon.frames()[0])
            plain = [(c0, o0) for c0, cm0, o0 in held if cm0 is None]
            if plain and rng.random() < 0.3:
                # the same Client object connects again: after disconnect(), after losing its connection, or directly
                c0, o0 = rng.choice(plain)
                mode = rng.choice(["clean", "lost", "direct"])
                entry = "reconnect_" + mode
                opts = dict(opts, name=o0["name"], module_id=o0["module_id"])
                try:
                    if mode == "clean":
                        c0.disconnect()
                    elif mode == "lost":
                        from pyrtma.exceptions import ConnectionLost, NotConnectedError
                        try:
                            c0._sock.shutdown(2)
                        except OSError:
                            pass
                        for _ in range(50):
                            try:
                                c0.read_message(timeout=0.05)
                            except (ConnectionLost, NotConnectedError):
                                break
                            except Exception:
                                pass
                    c0.connect(server, opts["logger_status"], daemon, opts["allow_multiple"])
                    c = c0
                    C["api_reconnects"] = C.get("api_reconnects", 0) + 1
                except Exception as e:
                    V.append({"mech": "api_reconnect_failed:" + mode, "detail": f"{entry} {opts}: {type(e).__name__}: {e}"})
                    continue
            else:
              try:
                if entry == "context":
                    cm = client_context(module_id=opts["module_id"], server_name=server, timecode=tc,
                                        logger_status=opts["logger_status"], allow_multiple=opts["allow_multiple"], name=opts["name"])
                    c = cm.__enter__()
                    daemon = False  # client_context has no daemon option: the manager must see daemon off
                    held.append((c, cm, opts))
                else:
                    c = Client(module_id=opts["module_id"], timecode=tc, name=opts["name"])
                    if entry == "connect":
                        c.connect(server, opts["logger_status"], daemon, opts["allow_multiple"])
                    else:
                        c.connect(server_name=server, allow_multiple=opts["allow_multiple"], daemon_status=daemon,
                                  logger_status=opts["logger_status"])
                    held.append((c, None, opts))
              except Exception as e:
                V.append({"mech": "api_connect_failed", "detail": f"{entry} {opts}: {type(e).__name__}: {e}"})
                continue
            C["api_connects"] = C.get("api_connects", 0) + 1
            res["sets"].setdefault("api_shape", []).append([entry, opts["logger_status"], opts["allow_multiple"], bool(opts["name"]), opts["module_id"] != 0, daemon])
            port = c.sock.getsockname()[1]
            # connect() returned => the manager has sent ACK and then CLIENT_INFO; settle() makes everything it wrote
            # visible in the monitor's byte log (the poll below is only a safety net)
            rig.settle()
            x = None
            end = time.time() + 5
            while time.time() < end and x is None:
                for f in mon.frames()[0][n0:]:
                    if f.msg_type == W.MT_CLIENT_INFO and len(f.payload) == 80:
                        u = W.unpack_client(f.payload)
                        if u["port"] == port:
                            x = u
                            break
                time.sleep(0.003)
            if x is None:
                V.append({"mech": "client_info_missing", "detail": f"{entry} {opts}: no CLIENT_INFO within 5 s"})
                continue
            C["client_info_compared"] = C.get("client_info_compared", 0) + 1
            want = {"is_logger": int(opts["logger_status"]), "is_unique": int(not opts["allow_multiple"]), "name": opts["name"]}
            have = {k2: x[k2] for k2 in want}
            if not opts["name"] and opts["module_id"] in (4, 5):
                # no name given: the client may fill in the name its module-id table lists for that id
                from pyrtma.context import get_context
                table = {v: k2 for k2, v in get_context().MID.items()}
                if have["name"] == table.get(opts["module_id"]):
                    want["name"] = have["name"]
            if opts["module_id"]:
                want["mod_id"], have["mod_id"] = opts["module_id"], x["mod_id"]
            else:
                C["dynamic_ids_checked"] = C.get("dynamic_ids_checked", 0) + 1
                if not (100 <= x["mod_id"] <= 199) or c.module_id != x["mod_id"]:
                    V.append({"mech": "dynamic_id_not_learnt", "detail": f"{entry}: manager announced id {x['mod_id']}, client.module_id={c.module_id}"})
            if have != want:
                bad = [k2 for k2 in want if want[k2] != have[k2]]
                V.append({"mech": f"option_not_honoured:{entry}:{'+'.join(bad)}", "detail": f"{entry}({opts}, daemon={daemon}): manager announced {have}"})
            try:
                mod = next(m for s, m in rig.mgr.modules.items() if tuple(m.address)[1] == port)
                C["daemon_flags_checked"] = C.get("daemon_flags_checked", 0) + 1
                if bool(mod.is_daemon) != bool(daemon):
                    V.append({"mech": f"option_not_honoured:{entry}:daemon", "detail": f"{entry}({opts}, daemon={daemon}): Module.is_daemon={mod.is_daemon}"})
            except StopIteration:
                pass
        for c, cm, _o in held:
            try:
                c._sock.close()
                c._connected = False
            except Exception:
                pass
        if not rig.alive():
            V.append({"mech": "manager_died", "detail": (rig.crash or "")[-800:]})
        res["sample"] = {"api_case_seed": case["seed"], "connects": C.get("api_connects", 0)} if case.get("n", 0) % 5 == 0 else None
        return res
    finally:
        rig.close()
