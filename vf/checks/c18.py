"""C18 — manager traffic statistics are exact.

Monitor: a non-logger client subscribed to ALL sees, in service order, every frame the manager handles for
forwarding (everything is broadcast here) and every TIMING_MESSAGE / MESSAGE_TRAFFIC report; the reports are
compared with the counts of the frames between consecutive reports in that very stream, and cross-checked
against the number of frames the harness published.
"""
from __future__ import annotations

import random
import struct
from collections import Counter

from vf.rig import wire as W
from vf.rig.manager_rig import ManagerRig
from vf.rig.scenario import Scenario, stream_checks
from vf.models.router import ALL
from vf.driver import sig_of

ID = "C18"
LEVEL = "exploration"
RULE = ("cases = sequences of reporting intervals under a harness-controlled clock; per interval a multiset of forwarded "
        "types with {0,1,2,63,64,65,127,128,129,300,640} distinct types and counts from {1,2,255,65535}, modules "
        "connecting / leaving / declaring pids between reports, intervals that fire only TIMING (0.95 s) or both; "
        "non-trivial = an interval with >=1 counted message was compared against a report; distinct = descriptor hash")
ASSUMPTIONS = ["valid publications go to destination 0 and the monitor is always writable, so the monitor's stream is the "
               "complete, ordered list of deliverable messages handled for forwarding; messages with a destination "
               "outside the valid range are handled (counted) but delivered to nobody: the harness attributes them to "
               "the report whose clock first reaches the clock of the round that serviced them",
               "the first TIMING and first MESSAGE_TRAFFIC report (covering traffic from before the monitor subscribed) "
               "are used for calibration only",
               "an entry (unseen type, count 0) is not an attribution"]
REQUIRE = {"cases_with_timing_message_switched_off": 5, "timing_reports_checked": 40, "traffic_groups_checked": 30, "nonzero_timing_entries_checked": 200,
           "traffic_entries_checked": 200}
CASE_TIMEOUT = 300
NDISTINCT = [0, 1, 2, 63, 64, 65, 127, 128, 129, 300, 640]
# control-frame ids are operations, not publications (and -1 is the 'unused entry' marker of MESSAGE_TRAFFIC)
POOL = [t for t in range(0, 10000) if t not in W.CONTROL_TYPES]


def gen_cases(tier, seed):
    rng = random.Random(f"c18-{seed}")
    cases = []
    n = 60 if tier == "quick" else 5000
    for i in range(n):
        nint = rng.randint(1, 4)
        ints = []
        for _ in range(nint):
            nd = rng.choice(NDISTINCT)
            small = rng.random() < 0.8
            ints.append({"nd": nd, "counts": rng.choice([[1], [1, 2], [1, 2, 3, 255]] if not small else [[1], [1, 2]]),
                         "adv": rng.choice([1.5, 1.5, 0.95, 1.01, 5.5]), "oor": rng.random() < 0.25,
                         "churn": rng.random() < 0.4, "baddest": rng.random() < 0.35})
        cases.append({"seed": rng.getrandbits(32), "ints": ints, "npub": rng.choice([1, 2, 4, 8]), "tc": i % 5 == 4})
    # exact chunk boundaries, one each, and the big count
    for nd in NDISTINCT:
        cases.append({"seed": nd, "ints": [{"nd": nd, "counts": [1], "adv": 1.5, "oor": False, "churn": False},
                                           {"nd": nd, "counts": [2], "adv": 1.5, "oor": False, "churn": False}],
                      "npub": 4, "tc": False})
    nbig = 1 if tier == "quick" else 12
    for i in range(nbig):
        cases.append({"seed": 99 + i, "ints": [{"nd": 3, "counts": [65535, 255, 1], "adv": 1.5, "oor": False, "churn": False}],
                      "npub": 16, "tc": False, "timeout": 280})
    return cases


def run_case(case, tier):
    # every seventh case: a manager started with the TIMING_MESSAGE switched off (-T); the traffic reports are unaffected
    notiming = case.get("n", 0) % 7 == 3
    rig = ManagerRig(stepped=True, timecode=bool(case.get("tc")), send_msg_timing=not notiming, loud=(2 if case.get("n", 0) % 6 == 5 and max(max(iv["counts"]) for iv in case["ints"]) <= 255 else False))   # every sixth case: manager at DEBUG level, publishing its log messages
    try:
        sc = Scenario(rig, case["seed"])
        rng = random.Random(case["seed"])
        npub = case["npub"]
        pubs = [f"p{i}" for i in range(npub)]
        st = [["open", "M"], ["hello", "M", {"mod_id": 11, "pid": 1111}]]
        for i, L in enumerate(pubs):
            st += [["open", L], ["hello", L, {"mod_id": 20 + i, "pid": 5000 + i}]]
        nwq = case.get("n", 0) % 4 == 3
        if nwq:
            # a second receiver of the statistics that is reported not ready in the reporting rounds: the failure notices
            # this produces are ordinary messages and belong into the next report
            st += [["open", "Q"], ["hello", "Q", {"mod_id": 13, "pid": 1313}], ["drain"], ["sub", "Q", W.MT_TIMING], ["sub", "Q", W.MT_MESSAGE_TRAFFIC]]
        st += [["drain"], ["sub", "M", ALL], ["drain"]]
        for s in st:
            sc.issue(s) if s[0] not in ("drain", "round") else sc.drain()
        snaps = {}
        published = []   # per traffic interval ground truth from the harness side

        rclock = {}

        def do_round(adv):
            # the manager takes its writability snapshot only in rounds with input from a connected module; in an
            # idle or accept-only round it believes nobody is writable and the monitor would miss what it originates
            # then. Every round of this harness therefore carries at least one request (control frames are not counted)
            if not any(c_.pending and c_.accepted and not c_.dropped for c_ in sc.cl.values()):
                sc.issue(["sub", pubs[0], 777777])
            rec = sc.round({"seed": rng.getrandbits(30), "adv": adv, "nw": ["Q"] if (nwq and adv >= 0.9) else []})
            rclock[rec["n"]] = rig.clock
            snaps[round(rig.clock, 6)] = {m.mod_id: m.pid for m in sc.model.mods.values() if m.connected and m.mod_id}

        do_round(2.0)  # calibration flush
        extra = 0
        twin = None
        if case.get("n", 0) % 4 == 1:
            # a second manager in the same interpreter carries traffic of its own (types 9900..9903) all the while: none
            # of it belongs into this manager's reports
            import logging as _lg
            import threading as _th
            import pyrtma.manager as _pm
            B = _pm.MessageManager("127.0.0.1", 0, timecode=bool(case.get("tc")), log_level=_lg.CRITICAL + 10, send_msg_timing=True)
            tb = _th.Thread(target=B.run, daemon=True, name="vf-second-manager")
            tb.start()
            bc = W.WireClient(rig.drainer, B.listen_socket.getsockname(), "twinpub", timecode=rig.timecode)
            bc.send_frame(W.MT_CONNECT_V2, W.p_connect_v2(0, 0, 0, 70, 4242, b""), src_mod=70)
            bc.send_frame(W.MT_CONNECT, W.p_connect(0, 0), src_mod=70)
            twin = (B, tb, bc)

        def twin_traffic():
            if twin:
                try:
                    for k_ in range(rng.randint(1, 6)):
                        twin[2].send_frame(9900 + k_ % 4, b"", src_mod=70)
                except OSError:
                    pass
            return None
        for iv in case["ints"]:
            types = rng.sample(POOL, iv["nd"])
            if iv["oor"] and types:
                types += rng.sample([10000, 10001, 123456, -2, -5, -9999, -10000, -10001, 2 ** 31 - 2], 3)
            todo = []
            for t in types:
                todo += [t] * rng.choice(iv["counts"])
            rng.shuffle(todo)
            # some messages carry a destination outside the valid range: handled by the manager (and counted),
            # delivered to nobody - so the monitor never sees them and the harness accounts for them by round
            bad = set()
            if iv.get("baddest") and todo:
                bad = set(rng.sample(range(len(todo)), max(1, len(todo) // rng.choice([2, 5, 20]))))
                if rng.random() < 0.3:
                    bad |= {i for i, t in enumerate(todo) if t == todo[0]}   # a type seen only with bad destinations
            DEST = [(201, 0), (-1, 0), (32767, 0), (0, 6), (0, -1), (5, 32767)]
            todo = [(t, *(rng.choice(DEST) if i in bad else (0, 0))) for i, t in enumerate(todo)]
            if iv["churn"]:
                N = f"x{extra}"
                extra += 1
                # explicit ids and dynamic ids (slots 100..199 of the process-id table)
                for s in (["open", N], ["hello", N, {"mod_id": rng.choice([60 + extra, 0, 0, 99 - extra]), "pid": 777 + extra}]):
                    sc.issue(s)
                if rng.random() < 0.5 and len(pubs) > 1:
                    sc.issue(["ready", pubs[-1], 31337 + extra])
                if rng.random() < 0.5:
                    # a connection request that must be refused (id held by a live unique module): the incumbent's
                    # process id stays in the table
                    R = f"r{extra}"
                    for s in (["open", R], ["hello", R, {"mod_id": rng.choice([11, 20]), "pid": 999, "v2": rng.random() < 0.7}]):
                        sc.issue(s)
            published.append(Counter(t for t, dm, dh in todo if (dm, dh) == (0, 0)))
            last = todo[-len(pubs):] if todo else []
            body = todo[:len(todo) - len(last)]
            i = 0
            while i < len(body):
                chunk = body[i:i + 400 * len(pubs)]
                i += len(chunk)
                for j, (t, dm, dh) in enumerate(chunk):
                    sc.issue(["pub", pubs[j % len(pubs)], t, dm, dh, 0])
                while sc.any_pending() and not (sc.crashed or sc.hung):
                    do_round(0.0001)
            while sc.any_pending() and not (sc.crashed or sc.hung):
                do_round(0.0001)
            twin_traffic()
            # the last messages of the interval are serviced in the reporting round itself (before the timers)
            for j, (t, dm, dh) in enumerate(last):
                sc.issue(["pub", pubs[j % len(pubs)], t, dm, dh, 0])
            do_round(iv["adv"])
            if iv["churn"] and rng.random() < 0.5:
                sc.issue(["disc", f"x{extra - 1}"])
        while sc.any_pending() and not (sc.crashed or sc.hung):
            do_round(0.0001)
        twin_traffic()
        do_round(6.0)
        do_round(2.0)
        rig.settle()
        res_ = judge(sc, case, snaps, published, rclock)
        if twin:
            res_["counters"]["cases_with_a_second_manager"] = 1
        return res_
    finally:
        try:
            if twin:
                twin[0].close()
                twin[1].join(2)
                twin[2].close()
        except Exception:
            pass
        rig.close()


def judge(sc, case, snaps, published, rclock):
    res = {"violations": [], "counters": {}, "sets": {}, "sig": sig_of({k: case[k] for k in case if k != "n"}),
           "nontrivial": False}
    V, C = res["violations"], res["counters"]
    if sc.crashed or sc.hung:
        V.append({"mech": "manager_died:" + (sc.rig.crash or "hung").strip().splitlines()[-1][:60],
                  "detail": (sc.rig.crash or "hung")[-900:]})
        return res
    if sc.problems:
        res["inconclusive"] = "; ".join(sc.problems[:3])
        return res
    rx = sc.received()
    for mech, detail in stream_checks(sc, rx):
        V.append({"mech": "c05:" + mech, "detail": detail})
    frames = rx["M"]["frames"]
    mid = sc.cl["M"].mod_id
    tcount, fcount = Counter(), Counter()
    seen_timing = seen_traffic = 0
    group = None
    harness_pub_total = sum(sum(c.values()) for c in published)
    stream_pub_total = 0
    # publications with an invalid destination: (clock of the round that serviced them, type), in service order
    inv = sorted((rclock[p_["round"]], p_["t"]) for p_ in sc.pubs.values()
                 if "round" in p_ and not (0 <= p_["dm"] <= 200 and 0 <= p_["dh"] <= 5))
    C["invalid_destination_messages_accounted"] = len(inv)
    cur = {"t": 0, "f": 0}

    def take(which, upto, into):
        while cur[which] < len(inv) and inv[cur[which]][0] <= upto + 1e-7:
            into[inv[cur[which]][1]] += 1
            cur[which] += 1

    def close_group():
        nonlocal group, seen_traffic, fcount
        if group is None:
            return
        seen_traffic += 1
        entries = [(t, n) for sub in group["subs"] for t, n in sub if t != -1]
        if seen_traffic > 1:
            C["traffic_groups_checked"] = C.get("traffic_groups_checked", 0) + 1
            listed = Counter(t for t, n in entries if n != 0)
            exp = group["expect"]
            if exp:
                res["nontrivial"] = True
            for t, n in exp.items():
                C["traffic_entries_checked"] = C.get("traffic_entries_checked", 0) + 1
                mine = [c for tt, c in entries if tt == t and not (c == 0)]
                if len(mine) == 0:
                    V.append({"mech": "traffic_type_missing", "detail": f"seqno {group['seqno']}: type {t} seen {n}x in the interval is "
                                                                        f"not listed ({len(exp)} distinct types, {len(group['subs'])} sub-messages)"})
                elif len(mine) > 1:
                    V.append({"mech": "traffic_type_listed_twice", "detail": f"seqno {group['seqno']}: type {t} listed {len(mine)} times "
                                                                             f"with counts {mine} ({len(exp)} distinct types, {len(group['subs'])} sub-messages)"})
                elif mine[0] != n:
                    V.append({"mech": "traffic_wrong_count", "detail": f"seqno {group['seqno']}: type {t} count {mine[0]} != {n}"})
            for t, n in entries:
                if n != 0 and t not in exp:
                    V.append({"mech": "traffic_count_for_unseen_type", "detail": f"seqno {group['seqno']}: type {t} count {n} but it was not seen"})
                    break
            subs = [s for s in group["subseq"]]
            if subs != list(range(1, len(subs) + 1)):
                C["advisory_sub_seqno_not_consecutive"] = C.get("advisory_sub_seqno_not_consecutive", 0) + 1
            res["sets"].setdefault("traffic_shape", []).append([len(exp), len(group["subs"])])
        group = None

    pending_traffic_expect = None
    for f in frames:
        is_pub = f.pid in sc.pubs
        if not is_pub and f.msg_type == W.MT_MESSAGE_TRAFFIC and f.src_mod == 0 and len(f.payload) == W.S_TRAFFIC.size:
            u = W.S_TRAFFIC.unpack(f.payload)
            seqno, sub = u[0], u[1]
            types, counts = u[4:68], u[68:132]
            if group is None or group["seqno"] != seqno:
                close_group()
                take("f", u[3], fcount)
                group = {"seqno": seqno, "subs": [], "subseq": [], "expect": fcount}
                fcount = Counter()
            group["subs"].append(list(zip(types, counts)))
            group["subseq"].append(sub)
            continue
        # (a group stays open across other frames: failure notices about one sub-message arrive between the sub-messages)
        if not is_pub and f.msg_type == W.MT_TIMING and f.src_mod == 0 and len(f.payload) == W.TIMING_SIZE:
            seen_timing += 1
            timing = struct.unpack_from("<10000H", f.payload, 0)
            pids = struct.unpack_from("<200i", f.payload, 20000)
            (st,) = struct.unpack_from("<d", f.payload, 20800)
            take("t", st, tcount)
            if seen_timing > 1:
                C["timing_reports_checked"] = C.get("timing_reports_checked", 0) + 1
                exp = {t: n for t, n in tcount.items() if 0 <= t < 10000}
                if exp:
                    res["nontrivial"] = True
                nz = {t: n for t, n in enumerate(timing) if n}
                C["nonzero_timing_entries_checked"] = C.get("nonzero_timing_entries_checked", 0) + len(exp)
                if nz != exp:
                    missing = {t: (exp.get(t, 0), nz.get(t, 0)) for t in set(exp) | set(nz) if exp.get(t, 0) != nz.get(t, 0)}
                    oor = [t for t in tcount if not (0 <= t < 10000)]
                    mech = "timing_wrong_count"
                    if oor and all(exp.get(t, 0) == 0 or (t in [10000 + o for o in oor if o < 0]) for t in missing):
                        mech = "timing_out_of_range_type_wraps_into_table"
                    V.append({"mech": mech, "detail": f"TIMING at clock {st}: (expected, reported) per type {dict(list(missing.items())[:8])}; "
                                                      f"out-of-range types this interval: {oor[:5]}"})
                snap = snaps.get(round(st, 6))
                if snap is not None:
                    for m, pid in snap.items():
                        C["pid_entries_checked"] = C.get("pid_entries_checked", 0) + 1
                        if 0 <= m < 200 and pids[m] != pid:
                            V.append({"mech": "timing_wrong_pid", "detail": f"TIMING at {st}: ModulePID[{m}]={pids[m]} declared {pid}"})
                            break
                    stale = [(i, pids[i]) for i in range(1, 200) if pids[i] and i not in snap]
                    C["pid_slots_of_absent_modules_checked"] = C.get("pid_slots_of_absent_modules_checked", 0) + 199 - len(snap)
                    if stale:
                        V.append({"mech": "timing_pid_for_absent_module", "detail": f"TIMING at {st}: ModulePID{stale[:4]} but no connected module holds that id"})
            tcount = Counter()
            continue
        if not is_pub and f.msg_type == W.MT_ACK and f.src_mod == 0 and f.dest_mod == mid:
            continue  # direct answer to the monitor's own control frames: not handled for forwarding
        if is_pub:
            stream_pub_total += 1
        tcount[f.msg_type] += 1
        fcount[f.msg_type] += 1
    close_group()
    take("t", float("inf"), tcount)
    take("f", float("inf"), fcount)
    if stream_pub_total != harness_pub_total:
        V.append({"mech": "monitor_stream_incomplete", "detail": f"harness published {harness_pub_total}, monitor saw {stream_pub_total}"})
    # failure notices about the very last reports arrive after them and have no later report to appear in
    for cnt in (tcount, fcount):
        if set(cnt) <= {W.MT_FAILED_MESSAGE} | set(W.MT_LOGS):   # (and the manager's own log lines about them)
            C["notices_after_the_last_report"] = C.get("notices_after_the_last_report", 0) + sum(cnt.values())
            cnt.clear()
    if case.get("n", 0) % 7 == 3:
        # TIMING_MESSAGE switched off: none may arrive, and nothing is owed
        C["cases_with_timing_message_switched_off"] = 1
        if seen_timing:
            V.append({"mech": "timing_sent_although_switched_off", "detail": f"{seen_timing} TIMING_MESSAGE reports from a manager started with send_msg_timing=False"})
        tcount.clear()
    if tcount:
        V.append({"mech": "timing_never_reported", "detail": f"{sum(tcount.values())} messages after the last TIMING report although the clock passed the period"})
    if fcount:
        V.append({"mech": "traffic_never_reported", "detail": f"{sum(fcount.values())} messages after the last TRAFFIC report although the clock passed the interval"})
    C["frames_in_monitor_stream"] = len(frames)
    res["sets"]["interval_shape"] = [[iv["nd"], max(iv["counts"]), iv["adv"], iv["oor"]] for iv in case["ints"]]
    if case.get("n", 0) % 13 == 0:
        res["sample"] = {"case": {k: case[k] for k in case if k != "n"}, "timing_reports": seen_timing, "traffic_groups": seen_traffic}
    return res
