"""C04 — all language outputs of the compiler describe the same wire format.

Every generated closure is compiled by the real compiler; the four outputs are loaded by their language loaders
(imported Python module with ctypes layout; gcc-built probe printing sizeof/offsetof/_Alignof/element class of
every member and a filled byte sample of every struct; node import with tagged type map; MATLAB-subset
interpreter) into one canonical description each, and the descriptions are compared: ids, hashes, constants,
module/host ids, field names, order, element class, count; C layout vs ctypes layout vs recorded type_size; and a
struct filled field-by-field through the C header is decoded by the generated Python class.
"""
from __future__ import annotations

import math
import os
import random
import shutil
from pathlib import Path

from vf.driver import sig_of
from vf.gen import defs as G
from vf.loaders import langs as L
from vf.rig import compiler_rig as CR

ID = "C04"
LEVEL = "translation_validation"
RULE = ("programs = seeded definition closures (1-5 files, all import-graph shapes) mixing the 26 native type names, aliases of "
        "natives and of aliases, nested structs/messages to depth 4, scalar and array fields with literal / constant-expression "
        "lengths incl. length 1, signals, field-list reuse, auto-inserted padding, reserved ids; a program counts when it compiled "
        "and all four outputs loaded; disagreements_checked = number of individual cross-language comparisons made")
ASSUMPTIONS = ["JavaScript carries no numeric widths: element classes are derived from the source type name the factory was built "
               "from (tagged type map), compared on names/order/counts/classes",
               "MATLAB by emulation of the emitted statement subset; MATLAB spells char as int8 (compared modulo char~i8)",
               "a count of 1 and a scalar are the same wire layout; constants compared exactly (|v| < 2^53)",
               "the map from each language's type spelling to an element class is part of the trusted base"]
REQUIRE = {"programs_fully_loaded": 25, "struct_comparisons": 300, "scalar_comparisons": 1000, "layout_comparisons": 500,
           "cross_decoded_values": 500}
CASE_TIMEOUT = 240
NAT = {k: v[0] for k, v in G.NATIVES.items()}


def prepare(tier, seed, scratch):
    CR.prepare_prelude(scratch)


def gen_cases(tier, seed):
    rng = random.Random(f"c04-{seed}")
    n = 96 if tier == "quick" else 2400
    return [{"seed": rng.getrandbits(40), "heavy": i % 3 == 2, "cli": i % 4 != 0} for i in range(n)]


def ml_norm(c):
    out = []
    for f in c:
        e = f["elem"]
        out.append({"name": f["name"], "count": f["count"] or 1, "elem": ("i8" if e == "char" else e) if isinstance(e, str) else ml_norm(e)})
    return out


def norm(c):
    return [{"name": f["name"], "count": f["count"] or 1, "elem": f["elem"] if isinstance(f["elem"], str) else norm(f["elem"])} for f in c]


def num_eq(a, b):
    if isinstance(a, str) or isinstance(b, str):
        return a == b
    if a is None or b is None:
        return False
    if isinstance(a, float) or isinstance(b, float):
        return float(a) == float(b) or (math.isnan(float(a)) and math.isnan(float(b)))
    return a == b


def first_diff(a, b, path=""):
    if len(a) != len(b):
        return f"{path}: {len(a)} fields vs {len(b)} fields ({[f['name'] for f in a][:8]} vs {[f['name'] for f in b][:8]})"
    for x, y in zip(a, b):
        p = f"{path}.{x['name']}"
        if x["name"] != y["name"]:
            return f"{p}: name {x['name']} vs {y['name']}"
        if x["count"] != y["count"]:
            return f"{p}: count {x['count']} vs {y['count']}"
        if isinstance(x["elem"], str) != isinstance(y["elem"], str):
            return f"{p}: scalar-vs-struct element"
        if isinstance(x["elem"], str):
            if x["elem"] != y["elem"]:
                return f"{p}: element class {x['elem']} vs {y['elem']}"
        else:
            d = first_diff(x["elem"], y["elem"], p)
            if d:
                return d
    return None


def run_case(case, tier):
    prog = G.gen_program(case["seed"], allow_known=False, heavy_align=case["heavy"])
    D = prog["desc"]
    work = Path(os.environ["VF_SCRATCH"]) / f"c04-{os.getpid()}-{case['n']}"
    res = {"violations": [], "counters": {"programs": 1}, "sets": {}, "sig": sig_of(prog["files"]), "nontrivial": False}
    V, C = res["violations"], res["counters"]

    def bump(k, n=1):
        C[k] = C.get(k, 0) + n

    try:
        b = CR.build(prog, work, cli=case["cli"])
        if b.rc != 0:
            res["inconclusive"] = None
            bump("programs_rejected_by_compiler")
            V.append({"mech": "compile_failed:" + str(b.failure), "detail": f"closure did not compile ({b.failure}); see C15 for the deciding check: " + b.text[-300:]})
            return res
        Ld = CR.load_all(b, sanitize=(tier == "thorough" and case["n"] % 4 == 0))
        py, c, js, ml = Ld["py"], Ld["c"], Ld["js"], Ld["mat"]
        for lang, r in (("python", py), ("c", c), ("javascript", js), ("matlab", ml)):
            if not r.get("ok"):
                V.append({"mech": f"output_does_not_load:{lang}", "detail": str(r.get("error") or r.get("errors"))[:600]})
        if V:
            return res
        bump("programs_fully_loaded")
        res["nontrivial"] = True
        pv, cv = py["values"], c["defines"]
        env = ml["env"]

        def mlnum(path):
            v = L.ml_value(env, path)
            return None if v is None else v.get("v")

        def cmp_scalar(what, name, vals):
            bump("scalar_comparisons")
            ref = vals["python"]
            for lang, v in vals.items():
                if lang != "python" and not num_eq(ref, v):
                    V.append({"mech": f"{what}_differs:python_vs_{lang}", "detail": f"{what} {name}: python {ref!r} vs {lang} {v!r}"})

        # constants, strings, ids
        for name in D["constants"]:
            cmp_scalar("constant", name, {"python": pv.get(name), "c": cv.get(name), "javascript": js["constants"].get(name), "matlab": mlnum(["defines", name])})
        for name in D["strings"]:
            cmp_scalar("string_constant", name, {"python": pv.get(name), "c": cv.get(name), "javascript": js["constants"].get(name),
                                                  "matlab": (L.ml_value(env, ["defines", name]) or {}).get("v")})
        for name in D["modules"]:
            cmp_scalar("module_id", name, {"python": pv.get("MID_" + name), "c": cv.get("MID_" + name), "javascript": js["MID"].get(name), "matlab": mlnum(["MID", name])})
        for name in D["hosts"]:
            cmp_scalar("host_id", name, {"python": pv.get(name), "c": cv.get("HID_" + name), "javascript": js["HID"].get(name), "matlab": mlnum(["HID", name])})
        for rid in D["reserved"]:
            nm = f"_RESERVED_{rid:06d}"
            cmp_scalar("reserved_id", nm, {"python": pv.get("MT_" + nm), "c": cv.get("MT_" + nm), "javascript": js["MT"].get(nm), "matlab": mlnum(["MT", nm.lstrip("_")])})
        for name, d in D["defs"].items():
            if d["kind"] == "struct":
                pcls, cname, top, mltop = py["classes"].get(name), name, "SDF", "typedefs"
            else:
                pcls, cname, top, mltop = py["classes"].get("MDF_" + name), "MDF_" + name, "MDF", "MDF"
                cmp_scalar("message_id", name, {"python": pv.get("MT_" + name), "c": cv.get("MT_" + name), "javascript": js["MT"].get(name), "matlab": mlnum(["MT", name])})
                jh = js["HASH"].get(name)
                mh = (L.ml_value(env, ["hash", name]) or {}).get("v")
                cmp_scalar("version_hash", name, {"python": pcls and pcls["type_hash"], "c": cv.get("HASH_" + name), "javascript": int(jh, 16) if isinstance(jh, str) else jh,
                                                  "matlab": int(mh, 16) if isinstance(mh, str) else mh})
                if pcls is not None and pcls["type_id"] != pv.get("MT_" + name):
                    V.append({"mech": "python_type_id_vs_MT", "detail": f"{name}: class type_id {pcls['type_id']} vs MT_{name} {pv.get('MT_' + name)}"})
            if pcls is None:
                V.append({"mech": "definition_missing:python", "detail": f"{name} not found in the generated Python module"})
                continue
            if d["kind"] == "signal":
                if pcls["sizeof"] != 0 or pcls["type_size"] != 0:
                    V.append({"mech": "signal_has_size", "detail": f"{name}: sizeof {pcls['sizeof']} type_size {pcls['type_size']}"})
                continue
            bump("struct_comparisons")
            cpy = norm(L.canon_py(pcls["fields"]))
            if cname not in c["decl"]:
                V.append({"mech": "definition_missing:c", "detail": f"{cname} not found in the generated header"})
            else:
                dd = first_diff(cpy, norm(L.canon_c(c, cname)), cname)
                if dd:
                    V.append({"mech": "struct_differs:python_vs_c", "detail": dd})
                cs = c["structs"][cname]
                bump("layout_comparisons")
                if not (cs["size"] == pcls["sizeof"] == pcls["type_size"]):
                    V.append({"mech": "size_differs", "detail": f"{cname}: C sizeof {cs['size']}, ctypes sizeof {pcls['sizeof']}, recorded type_size {pcls['type_size']}"})
                for fc, fp in zip(cs["fields"], pcls["fields"]):
                    bump("layout_comparisons")
                    if (fc["offset"], fc["size"]) != (fp["offset"], fp["size"]):
                        V.append({"mech": "offset_differs", "detail": f"{cname}.{fc['name']}: C offset/size {fc['offset']}/{fc['size']} vs ctypes {fp['offset']}/{fp['size']}"})
                        break
                dec = (py.get("decoded") or {}).get(cname)
                if dec is None or "error" in dec:
                    V.append({"mech": "cross_decode_failed", "detail": f"{cname}: {dec}"})
                else:
                    for path, want, got in dec["values"]:
                        bump("cross_decoded_values")
                        if not num_eq(want, got):
                            V.append({"mech": "cross_decode_differs", "detail": f"{cname} path {path}: C wrote {want}, Python class reads {got!r}"})
                            break
            jf = js["factories"].get(name)
            if jf is None or "desc" not in jf:
                V.append({"mech": "definition_missing:javascript", "detail": f"{name}: {jf and (jf.get('error') or jf.get('tag_error'))}"})
            else:
                dd = first_diff(cpy, norm(L.canon_js(jf["desc"], NAT)), name)
                if dd:
                    V.append({"mech": "struct_differs:python_vs_javascript", "detail": dd})
            mv = L.ml_value(env, [mltop, name])
            if mv is None or mv.get("kind") != "struct":
                V.append({"mech": "definition_missing:matlab", "detail": f"RTMA.{mltop}.{name} is not a struct in the MATLAB output"})
            else:
                dd = first_diff(ml_norm(cpy), ml_norm(L.canon_ml(mv)), name)
                if dd:
                    V.append({"mech": "struct_differs:python_vs_matlab", "detail": dd})
        C["disagreements_checked"] = C.get("scalar_comparisons", 0) + C.get("struct_comparisons", 0) * 3 + C.get("layout_comparisons", 0) + C.get("cross_decoded_values", 0)
        res["sets"]["features"] = D["features"]
        used = set()
        for d in D["defs"].values():
            for f in d["fields"]:
                used.add(f[1] if f[1] in G.NATIVES else "user")
        res["sets"]["native_types_used"] = sorted(used)
        if case["n"] % 13 == 0:
            res["sample"] = {"seed": case["seed"], "root": prog["root"], "files": {k: v[:500] for k, v in list(prog["files"].items())[:2]},
                             "defs": list(D["defs"])[:8]}
        return res
    finally:
        shutil.rmtree(work, ignore_errors=True)


def coverage_extra(m, tier):
    return {"programs": m.counters.get("programs_fully_loaded", 0), "disagreements_checked": m.counters.get("disagreements_checked", 0)}
