"""Own mutation list (DESIGN section 6): small string-replacement breaks applied one at a time in a temporary worktree of
/repo HEAD; for each, the quick check of the property it targets must report a VIOLATION.

usage: python -m vf.tools.mutants [ID ...]        (results -> seeded/own_mutants.json)
"""
import json
import os
import subprocess
import sys
from pathlib import Path

ROOT = Path(__file__).resolve().parent.parent.parent
M = "src/pyrtma/manager.py"
C = "src/pyrtma/client.py"
V = "src/pyrtma/validators.py"
P = "src/pyrtma/parser.py"
B = "src/pyrtma/message_base.py"
DC = "src/pyrtma/data_logger/data_collection.py"

MUTANTS = [
    ("m01", "C01", M, "                        or module.is_logger\n                    ):\n                        module.send_message(header, data)\n                        module.drops = 0\n                except ConnectionError as err:\n                    undelivered.append((module, err))\n            elif",
     "                    ):\n                        module.send_message(header, data)\n                        module.drops = 0\n                except ConnectionError as err:\n                    undelivered.append((module, err))\n            elif", "drop the logger clause of the destination filter"),
    ("m02", "C01", M, "if dest_mod_id < 0 or dest_mod_id > cd.MAX_MODULES:", "if dest_mod_id < 0 or dest_mod_id >= cd.MAX_MODULES:", "dest module 200 rejected (>=)"),
    ("m03", "C01", M, "if dest_host_id < 0 or dest_host_id > cd.MAX_HOSTS:", "if dest_host_id < 0 or dest_host_id > cd.MAX_HOSTS + 1:", "dest host 6 accepted"),
    ("m04", "C02", C, "                self._subscribed_types |= msg_set\n                self._paused_types -= msg_set\n        elif ctrl_msg == \"Unsubscribe\":",
     "                self._subscribed_types |= msg_set\n        elif ctrl_msg == \"Unsubscribe\":", "subscribe does not clear the paused mark"),
    ("m05", "C02", M, "            # Ignore individual msg_types unsubs when subscribed to ALL_MESSAGE_TYPES\n            if src_module.sub_all:\n                return\n",
     "", "individual unsubscribe is applied at the manager while subscribed to all"),
    ("m06", "C04", "src/pyrtma/compilers/c99.py", '    "long": "int32_t",', '    "long": "int64_t",', "C back end: long is 8 bytes"),
    ("m07", "C04", "src/pyrtma/compilers/matlab.py", '    "unsigned short": "uint16",', '    "unsigned short": "int16",', "MATLAB back end: unsigned short -> int16"),
    ("m08", "C04", "src/pyrtma/compilers/javascript.py", "RTMA.HASH.{mdf.name} = \"{mdf.hash[:8]}\"", "RTMA.HASH.{mdf.name} = \"{mdf.hash[:7]}\"", "JS hash has 7 digits"),
    ("m09", "C05", M, "        self.msg_count += 1\n        header.msg_count = self.msg_count\n\n        self.conn.sendall(header)\n        self.conn.sendall(payload)",
     "        header.msg_count = self.msg_count\n        self.msg_count += 1\n\n        self.conn.sendall(header)\n        self.conn.sendall(payload)", "sequence numbers start at 0"),
    ("m10", "C05", M, "        self.msg_count += 1\n        header.msg_count = self.msg_count\n\n        self.conn.sendall(header)\n\n", "        header.msg_count = self.msg_count\n\n        self.conn.sendall(header)\n\n", "Module.send_ack does not count (unused path check)"),
    ("m11", "C06", M, "            if self.next_dynamic_mod_id_offset == MAX_DYN_IDS:", "            if self.next_dynamic_mod_id_offset > MAX_DYN_IDS:", "dynamic id counter wraps one too late (id 200)"),
    ("m12", "C06", M, "                    if (m.unique or module.unique) and (m.name == module.name):", "                    if (m.unique and module.unique) and (m.name == module.name):", "name rule needs both unique"),
    ("m13", "C06", M, "            if module.mod_id < 1 or module.mod_id > cd.DYN_MOD_ID_START:", "            if module.mod_id < 1 or module.mod_id > cd.MAX_MODULES:", "explicit ids up to 200 accepted"),
    ("m14", "C07", M, "        # Discard from logger module set if needed\n        self.logger_modules.discard(module)\n", "", "departed logger stays in logger_modules"),
    ("m15", "C07", M, "        for msg_type in module.subs:\n            self.subscriptions[msg_type].discard(module)\n\n        # Discard", "        for msg_type in list(module.subs)[1:]:\n            self.subscriptions[msg_type].discard(module)\n\n        # Discard", "one subscription of the departed survives"),
    ("m16", "C08", C, "            _ = self._discard(header.num_data_bytes)\n            raise InvalidMessageDefinition(\n                f\"Received message header indicating a message data size",
     "            _ = self._discard(type_size)\n            raise InvalidMessageDefinition(\n                f\"Received message header indicating a message data size", "size mismatch discards type_size bytes"),
    ("m17", "C08", C, "        while M and (M.header.msg_type not in self.subscribed_types):", "        if M and (M.header.msg_type not in self.subscribed_types):", "filter examines only one queued frame"),
    ("m18", "C09", V, "        if not (self._min <= int(value) <= self._max):", "        if not (self._min <= int(value) <= self._max + 1):", "int range check off by one at max"),
    ("m19", "C09", V, "        if len(value) > (self.len - 1):", "        if len(value) > (self.len + 1):", "string one longer than the array accepted"),
    ("m20", "C10", B, "            elif ftype._type_ is ctypes.c_ubyte:\n                if type(getattr(obj, name)).__name__ == \"ByteArray\":", "            elif ftype._type_ is ctypes.c_ubyte:\n                if True:", "uint8 arrays serialised as ByteArray"),
    ("m21", "C11", P, "            pad_len = field.alignment - (ptr % field.alignment)", "            pad_len = field.base_size - (ptr % field.base_size)", "leading padding from element size instead of alignment"),
    ("m22", "C11", P, "        if mdf.size > 65535:", "        if mdf.size > 65536:", "size limit off by one"),
    ("m23", "C12", P, "        for mt in self.message_ids.values():\n            if msg_id == mt.value:", "        for mt in self.message_ids.values():\n            if msg_id == mt.value and not mt.name.startswith(\"_RESERVED_\"):", "reserved ids not checked against"),
    ("m24", "C12", P, "        self.check_duplicate_name(\n            \"aliases\",\n            alias,\n            namespaces=(\n                \"constants\",\n                \"string_constants\",\n                \"aliases\",\n                \"struct_defs\",\n                \"message_defs\",\n            ),\n        )",
     "        self.check_duplicate_name(\n            \"aliases\",\n            alias,\n            namespaces=(\n                \"constants\",\n                \"string_constants\",\n                \"aliases\",\n                \"struct_defs\",\n            ),\n        )", "alias vs message name not checked"),
    ("m25", "C13", P, "        raw = f\"{name}:\\n  id: {mdf['id']}\\n  fields:\\n{f}\"\n\n        raw = textwrap.dedent(raw)", "        raw = f\"{name}:\\n  fields:\\n{f}\"\n\n        raw = textwrap.dedent(raw)", "message hash without the id"),
    ("m26", "C14", M, "            else:\n                module.drops += 1\n                undelivered.append((module, None))", "            else:\n                module.drops += 1", "no notice for a not-ready subscriber"),
    ("m27", "C14", M, "            cd.MT_RTMA_LOG_DEBUG,\n        ):\n            return", "            cd.MT_RTMA_LOG_DEBUG,\n        ) and False:\n            return", "recursion guard disabled"),
    ("m28", "C15", "src/pyrtma/compilers/python.py", "            f.write(\"# Struct Definitions\\n\")\n            for obj in self.parser.struct_defs.values():\n                f.write(self.generate_struct(obj))\n                f.write(\"\\n\\n\")\n\n            f.write(\"# Message Definitions\\n\")\n            for obj in self.parser.message_defs.values():\n                f.write(self.generate_msg_def(obj))\n                f.write(\"\\n\\n\")",
     "            f.write(\"# Message Definitions\\n\")\n            for obj in self.parser.message_defs.values():\n                f.write(self.generate_msg_def(obj))\n                f.write(\"\\n\\n\")\n\n            f.write(\"# Struct Definitions\\n\")\n            for obj in self.parser.struct_defs.values():\n                f.write(self.generate_struct(obj))\n                f.write(\"\\n\\n\")", "python back end emits messages before structs"),
    ("m29", "C16", "src/pyrtma/compilers/c99.py", "            for obj in self.parser.module_ids.values():\n                # exclude core_defs.yaml, C clients will import rtma.h\n                if obj.src.parent.stem != \"core_defs\":\n                    f.write(self.generate_module_id(obj))",
     "            for obj in set(self.parser.module_ids.values()) if False else sorted(self.parser.module_ids.values(), key=lambda o: hash(o.name)):\n                # exclude core_defs.yaml, C clients will import rtma.h\n                if obj.src.parent.stem != \"core_defs\":\n                    f.write(self.generate_module_id(obj))", "C header orders module ids by str hash"),
    ("m30", "C17", DC, "        while self.write_to_disk.is_set():\n            if self.write_finished.wait(0.250) and self.write_to_disk.is_set():\n                # stale notification of the previous write\n                self.write_finished.clear()\n",
     "        if self.write_to_disk.is_set():\n            while not self.write_finished.wait(0.250):\n                pass\n", "revert the stale write_finished fix"),
    ("m31", "C18", M, "        if not self.sending_traffic.get():\n            if self.b_send_msg_timing", "        if True:\n            if self.b_send_msg_timing", "statistics messages are counted"),
    ("m32", "C19", M, "        elif msg_type == cd.MT_DISCONNECT:\n            self.disconnect_module(src_module)", "        elif msg_type == cd.MT_DISCONNECT:\n            self.send_ack(src_module)\n            self.disconnect_module(src_module)", "DISCONNECT is acknowledged"),
    ("m33", "C19", M, "        elif msg_type == cd.MT_MODULE_READY:\n            self.register_module_ready(src_module, self.message)\n", "        elif msg_type == cd.MT_MODULE_READY:\n            self.register_module_ready(src_module, self.message)\n            self.send_ack(src_module)\n", "MODULE_READY is acknowledged"),
    ("m34", "C03", M, "        if data_size < 0 or data_size > len(self.data_buffer):", "        if data_size < 0 or data_size > len(self.data_buffer) + 1:", "length guard off by one"),
    ("m35", "C03", M, "            if i < cd.MAX_ACTIVE_CLIENTS:\n", "            if i <= cd.MAX_ACTIVE_CLIENTS:\n", "active clients guard off by one"),
    ("m36", "C18", M, "                if i == cd.MESSAGE_TRAFFIC_SIZE - 1:", "                if i == cd.MESSAGE_TRAFFIC_SIZE - 2:", "sub-message sent one entry early"),
    ("m37", "C10", "src/pyrtma/message.py", "        if hdr.version != 0 and hdr.version != msg_cls.type_hash:", "        if hdr.version != 0 and hdr.version != msg_cls.type_hash and hdr.version != hdr.msg_type:", "version check weakened (harmless alternative accepted)"),
    ("m38", "C13", C, "                    header.version = msg_data.type_hash\n", "                    header.version = msg_data.type_hash if not self._header_cls.__name__.startswith(\"TimeCode\") else 0\n", "timecode layout leaves version 0"),
    # ---- second batch (after round 3 of the sub-agent breaks): dimensions the first batch did not touch
    ("m39", "C18", M, "        for mod in self.modules.values():\n            data.ModulePID[mod.mod_id] = mod.pid\n", "        for mod in self.modules.values():\n            if mod.mod_id < cd.DYN_MOD_ID_START:\n                data.ModulePID[mod.mod_id] = mod.pid\n", "pids of dynamic-id modules are not reported"),
    ("m40", "C18", M, "        src_module.pid = mr.pid\n", "        src_module.pid = src_module.pid or mr.pid\n", "MODULE_READY does not replace a pid given at connect"),
    ("m41", "C01", M, "            for sub_type in src_module.subs:\n                self.subscriptions[sub_type].discard(src_module)\n            src_module.subs.clear()\n\n            self.subscriptions[sub.msg_type].add(src_module)",
     "            src_module.subs.clear()\n\n            self.subscriptions[sub.msg_type].add(src_module)", "SUBSCRIBE(ALL) leaves the individual routing entries (double delivery)"),
    ("m42", "C19", M, "            self.pause_subscription(src_module, self.message)\n            self.send_ack(src_module)", "            self.pause_subscription(src_module, self.message)", "PAUSE_SUBSCRIPTION is not acknowledged"),
    ("m43", "C19", M, "            self.set_module_name(src_module, self.message)\n            self.send_client_info(src_module)", "            self.set_module_name(src_module, self.message)\n            self.send_ack(src_module)\n            self.send_client_info(src_module)", "CLIENT_SET_NAME is acknowledged"),
    ("m44", "C06", M, "                    if (m.unique or module.unique) and (m.name == module.name):", "                    if (m.unique or module.unique) and (m.name == module.name) and m.mod_id != module.mod_id:", "name rule skipped for modules sharing the id"),
    ("m45", "C06", M, "        module.is_daemon = msg.data.daemon_status == 1", "        module.is_daemon = msg.data.logger_status == 1", "daemon flag taken from the logger flag"),
    ("m46", "C14", M, "        data.dest_mod_id = dest_module.mod_id\n        data.time_of_failure", "        data.dest_mod_id = header.dest_mod_id\n        data.time_of_failure", "notice names the header's destination instead of the failed subscriber"),
    ("m47", "C14", M, "        for fname, ftype, *_ in data.msg_header._fields_:\n            setattr(data.msg_header, fname, getattr(header, fname))", "        for fname, ftype, *_ in data.msg_header._fields_:\n            if fname != \"_src_mod_id\":\n                setattr(data.msg_header, fname, getattr(header, fname))", "notice loses the original source"),
    ("m48", "C08", C, "            if (\n                ack and M.header.msg_type == cd.MT_ACKNOWLEDGE\n            ):", "            if (\n                M.header.msg_type == cd.MT_ACKNOWLEDGE\n            ):", "ACKs are returned by read_message without ack=True"),
    ("m49", "C08", C, "        if sync_check and header.version != 0 and header.version != data.type_hash:", "        if sync_check and header.version != data.type_hash:", "version 0 refused under sync_check"),
    ("m50", "C02", C, "                self._subscribed_types -= msg_set\n                self._paused_types |= msg_set", "                self._paused_types |= msg_set & self._subscribed_types\n                self._subscribed_types -= msg_set", "pausing a type that is not subscribed is not recorded as paused"),
    ("m51", "C07", M, "        self.send_client_close(module)\n        del self.modules[module.conn]", "        del self.modules[module.conn]", "no CLIENT_CLOSED at all"),
    ("m52", "C01", M, "            self.subscriptions[unsub.msg_type].discard(src_module)\n\n            # Clear out the individual subs\n            for sub_type in src_module.subs:\n                self.subscriptions[sub_type].discard(src_module)\n            src_module.subs.clear()",
     "            self.subscriptions[unsub.msg_type].discard(src_module)\n            src_module.subs.discard(unsub.msg_type)", "UNSUBSCRIBE(ALL) leaves individual subscriptions in place"),
    ("m53", "C05", M, "        for module, err in undelivered:\n            if err is not None:\n                if self.modules.get(module.conn) is module:\n                    self.remove_module(module)", "        for module, err in reversed(undelivered):\n            if err is not None:\n                if self.modules.get(module.conn) is module:\n                    self.remove_module(module)", "failure reports in reverse order (still consistent for all receivers?)"),
    ("m54", "C03", M, "        except UnicodeDecodeError:\n            self.logger.warning(\n                f\"SET_NAME", "        except UnicodeEncodeError:\n            self.logger.warning(\n                f\"SET_NAME", "wrong exception class guards CLIENT_SET_NAME"),
    ("m55", "C09", V, "        if not value.isascii():\n            raise TypeError(f\"Expected {value} to only contain valid ascii points\")\n\n    def validate_many(self, value):", "        if not value.isprintable() and not value.isascii():\n            raise TypeError(f\"Expected {value} to only contain valid ascii points\")\n\n    def validate_many(self, value):", "printable non-ASCII strings pass the String check (encode then raises late)"),
]


def main():
    want = set(sys.argv[1:])
    wt = f"/tmp/vf-mutants-{os.getpid()}"
    subprocess.run(["git", "-C", "/repo", "worktree", "add", "-q", "--detach", wt, "HEAD"], check=True)
    out = {}
    try:
        for mid, prop, file, old, new, what in MUTANTS:
            if want and mid not in want:
                continue
            subprocess.run(["git", "-C", wt, "checkout", "-q", "--", "."], check=True)
            p = Path(wt) / file
            s = p.read_text()
            if old not in s:
                out[mid] = {"property": prop, "what": what, "status": "pattern not found (source changed)"}
                print(mid, prop, "PATTERN NOT FOUND")
                continue
            p.write_text(s.replace(old, new, 1))
            comp = subprocess.run(["/venv/bin/python", "-c", "import pyrtma, pyrtma.manager, pyrtma.compile, pyrtma.data_logger"], env=dict(os.environ, PYTHONPATH=wt + "/src"),
                                  capture_output=True, text=True)
            if comp.returncode != 0:
                out[mid] = {"property": prop, "what": what, "status": "does not import"}
                print(mid, prop, "DOES NOT IMPORT", comp.stderr[-200:])
                continue
            evp = ROOT / "evidence" / f"{prop}.json"
            saved = evp.read_bytes() if evp.exists() else None
            r = subprocess.run([str(ROOT / "check"), prop, "--tier", "quick"], capture_output=True, text=True, env=dict(os.environ, VF_REPO=wt), cwd=str(ROOT))
            if saved is not None:
                evp.write_bytes(saved)
            viol = any(l.startswith("VIOLATION") for l in r.stdout.splitlines())
            mechs = [l.strip()[:160] for l in r.stdout.splitlines() if l.strip().startswith("mechanism=")][:2]
            out[mid] = {"property": prop, "what": what, "status": "caught" if viol else f"MISSED (exit {r.returncode})", "mechanisms": mechs}
            print(mid, prop, "caught" if viol else f"MISSED exit={r.returncode}", "|", what, "|", mechs[:1])
    finally:
        subprocess.run(["git", "-C", "/repo", "worktree", "remove", "--force", wt])
    if not want:
        (ROOT / "seeded" / "own_mutants.json").write_text(json.dumps(out, indent=1) + "\n")


if __name__ == "__main__":
    main()
