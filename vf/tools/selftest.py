"""Self-test of the shims: the stepped rig services two simultaneous publishers in both orders on demand."""
import sys
from vf.rig.manager_rig import ManagerRig
from vf.rig.scenario import Scenario

seen = set()
for order in (["a", "b"], ["b", "a"]):
    rig = ManagerRig(stepped=True)
    try:
        sc = Scenario(rig, 0)
        sc.run([["open", "a"], ["open", "b"], ["open", "s"], ["hello", "a", {"mod_id": 10}], ["hello", "b", {"mod_id": 11}],
                ["hello", "s", {"mod_id": 12}], ["drain"], ["sub", "s", 1234], ["drain"],
                ["pub", "a", 1234, 0, 0, 8], ["pub", "b", 1234, 0, 0, 8], ["round", {"order": order}]])
        rx = sc.received()
        got = [sc.pubs[f.pid]["by"] for f in rx["s"]["frames"] if f.pid in sc.pubs]
        seen.add(tuple(got))
        assert got == order, (got, order)
        assert rig.crash is None
    finally:
        rig.close()
assert len(seen) == 2
print("selftest ok: both service orders produced on demand")
