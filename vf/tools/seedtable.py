"""prints the markdown table of seeded breaks from seeded/*/meta.json"""
import json
from pathlib import Path
ROOT = Path(__file__).resolve().parent.parent.parent
import io, sys
_out = io.StringIO()
_print = print
def print(*a, **k):
    _print(*a, **k, file=_out)
print("| id | property | needs to manifest | caught by (quick tier) | first mechanism reported |")
print("|---|---|---|---|---|")
for d in sorted(x for x in (ROOT / "seeded").iterdir() if x.is_dir()):
    m = json.loads((d / "meta.json").read_text())
    mech = ""
    missed_first = False
    for run in m.get("runs", []):
        for c, r in run["results"].items():
            if c == m["property"] and not r["violation"]:
                missed_first = True
            if r["violation"] and not mech and r["mechanisms"]:
                mech = r["mechanisms"][0].split(":")[0].replace("mechanism=", "") + ":" + ":".join(r["mechanisms"][0].split(":")[1:2])[:40]
    det = ", ".join(m.get("detected_by", [])) or "**missed**"
    note = " (missed at first; check strengthened)" if missed_first and m["property"] in m.get("detected_by", []) else ""
    if m.get("neutralised_by"):
        note += f" (no longer a break on HEAD: repository fix {m['neutralised_by']} removes its mechanism)"
    print(f"| {d.name} | {m['property']} | {m['needs_to_manifest'][:170]} | {det}{note} | `{mech[:60]}` |")

table = _out.getvalue()
if "--write" in sys.argv:
    p = ROOT / "DESIGN.md"
    t = p.read_text()
    a, b = t.index("<!-- SEEDTABLE:BEGIN -->"), t.index("<!-- SEEDTABLE:END -->")
    p.write_text(t[:a] + "<!-- SEEDTABLE:BEGIN -->\n" + table + t[b:])
    _print("DESIGN.md updated")
else:
    _print(table)
