"""Regenerates MANIFEST.json from the metadata of the check modules that exist (vf/checks/cNN.py)."""
import importlib
import json
import os
from pathlib import Path

ROOT = Path(__file__).resolve().parent.parent.parent
BASELINE = ("cd /repo && /venv/bin/python -m pytest -ra -q -p no:cacheprovider --timeout=900 "
            "--continue-on-collection-errors")

props = [json.loads(l) for l in (ROOT / "properties.jsonl").read_text().splitlines() if l.strip()]
checks, na = [], []
for p in props:
    cid = p["id"]
    try:
        mod = importlib.import_module(f"vf.checks.{cid.lower()}")
    except ModuleNotFoundError:
        na.append({"property_id": cid, "reason": "check not built yet in this round (design in DESIGN.md section 4); "
                                                 "the technique applies, nothing is claimed until the check exists"})
        continue
    if getattr(mod, "NOT_APPLICABLE", None):
        na.append({"property_id": cid, "reason": mod.NOT_APPLICABLE})
        continue
    checks.append({
        "property_id": cid,
        "quick_cmd": f"./check {cid} --tier quick",
        "thorough_cmd": f"./check {cid} --tier thorough",
        "evidence_file": f"/verif/evidence/{cid}.json",
        "replay_cmd_template": f"./check {cid} --replay {{path}}",
        "engine": "vf",
        "level_claimed": {"category": mod.LEVEL, "text": getattr(mod, "LEVEL_TEXT", mod.__doc__.strip().split("\n\n")[0]),
                          "design_ref": f"DESIGN.md section 4, {cid}"},
        "level_note": "; ".join(getattr(mod, "ASSUMPTIONS", [])),
        "technique": getattr(mod, "TECHNIQUE", "runtime monitoring: oracle over observed executions of the real code"),
    })

man = {
    "version": 1,
    "setup_cmd": "./setup.sh",
    "hooks": {
        "guard": "PYRTMA_VERIF",
        "enable": "no source hooks: all instrumentation is attached from the harness at run time "
                  "(module-attribute shims on pyrtma.manager.select/random/time, class-level wrappers, attribute "
                  "substitution); checks import pyrtma from /repo/src's working tree via PYTHONPATH",
        "baseline_off_cmd": BASELINE,
        "source_commits": [],
        "add_only": True,
    },
    "engines": [{"name": "vf", "path": "/verif/vf", "serves_properties": [c["property_id"] for c in checks],
                 "kind_free_text": "runtime monitoring harness: real MessageManager/Client/compiler/data-logger code "
                                   "driven by generated hostile workloads under recording/steering shims; oracles are "
                                   "small executable models and reference decoders over observed histories"}],
    "checks": checks,
    "notes": "Exit codes: 0 held (KNOWN-FINDING lines possible), 1 VIOLATION, 2 inconclusive (never folded into held). "
             "Known findings: /verif/known_findings.json. Seeded breaks: /verif/seeded/. See DESIGN.md.",
    "not_applicable": na,
}
(ROOT / "MANIFEST.json").write_text(json.dumps(man, indent=1) + "\n")
print(f"{len(checks)} checks, {len(na)} not claimed")
