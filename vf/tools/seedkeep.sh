#!/bin/bash
# seedkeep.sh <worktree> <seeded-id> <property> "<what it needs to manifest>"
# Confirms a sub-agent's break independently (tests pass with it, demo fails with it, demo passes without it) and stores it under seeded/<id>/.
set -u
WT="$1"; SID="$2"; PROP="$3"; NEEDS="${4:-}"
OUT="$(cd "$(dirname "$0")/../.." && pwd)/seeded/$SID"
cd "$WT" || exit 2
export PYTHONPATH="$WT/src"
git -C "$WT" checkout -q -- src 2>/dev/null
git -C "$WT" apply --check BREAK.diff || { echo "BREAK.diff does not apply to a clean tree"; exit 2; }
run_demo() { timeout 300 /venv/bin/python demo_break.py > /tmp/seedkeep.$$.log 2>&1; echo $?; }
d0=$(run_demo); d0b=$(run_demo)
git -C "$WT" apply BREAK.diff
d1=$(run_demo); d1b=$(run_demo)
tail -3 /tmp/seedkeep.$$.log | cut -c1-300
# the integration tests use real timing and random ports: under load a single run may flake, so up to three tries
for try in 1 2 3; do
  t=$(timeout 900 /venv/bin/python -m pytest -q -p no:cacheprovider tests 2>&1 | tail -1)
  echo "$t" | grep -q "passed" && ! echo "$t" | grep -q "failed" && break
done
echo "demo without change: $d0 $d0b ; demo with change: $d1 $d1b ; tests with change: $t"
ok=1
[ "$d0" = "0" ] && [ "$d0b" = "0" ] && [ "$d1" != "0" ] && [ "$d1b" != "0" ] || ok=0
echo "$t" | grep -q "passed" && ! echo "$t" | grep -q "failed" || ok=0
if [ $ok = 1 ]; then
  mkdir -p "$OUT"
  cp BREAK.diff "$OUT/patch.diff"; cp demo_break.py "$OUT/demo_break.py"; [ -f NOTE.md ] && cp NOTE.md "$OUT/NOTE.md"
  /venv/bin/python - "$OUT" "$PROP" "$NEEDS" "$d0" "$d1" "$t" <<'PY'
import json,sys
out,prop,needs,d0,d1,t=sys.argv[1:7]
json.dump({"property":prop,"needs_to_manifest":needs,"confirmed":{"demo_exit_without_change":int(d0),"demo_exit_with_change":int(d1),"baseline_suite_with_change":t.strip()},
           "how_confirmed":"vf/tools/seedkeep.sh in the sub-agent's scratch worktree: BREAK.diff applied to a clean checkout; demo run twice each way; full pytest suite with the change","runs":[]},open(out+"/meta.json","w"),indent=1)
PY
  echo "KEPT -> $OUT"
else
  echo "NOT KEPT (confirmation failed)"
fi
rm -f /tmp/seedkeep.$$.log
