"""Run quick checks against a seeded break.

usage: python -m vf.tools.seedtest <seeded-id> [--repo DIR | --apply] [CHECK ...]
  --repo DIR : run the checks against a worktree that already has the patch applied (VF_REPO=DIR)
  --apply    : git -C /repo apply seeded/<id>/patch.diff, run, then git -C /repo checkout -- . (requires a clean /repo)
Prints, per check, whether it reported a VIOLATION, and records the result in seeded/<id>/meta.json.
"""
import json
import os
import subprocess
import sys
import time
from pathlib import Path

ROOT = Path(__file__).resolve().parent.parent.parent


def main():
    args = sys.argv[1:]
    sid = args.pop(0)
    repo, apply = None, False
    made_wt = None
    if args and args[0] == "--repo":
        args.pop(0)
        repo = args.pop(0)
    elif args and args[0] == "--apply":
        args.pop(0)
        apply = True
    elif args and args[0] == "--worktree":
        # temporary worktree of /repo HEAD with the patch applied (leaves /repo untouched; removed afterwards)
        args.pop(0)
        repo = f"/tmp/vf-seed-{sid}-{os.getpid()}"
        subprocess.run(["git", "-C", "/repo", "worktree", "add", "-q", "--detach", repo, "HEAD"], check=True)
        subprocess.run(["git", "-C", repo, "apply", str(ROOT / "seeded" / sid / "patch.diff")], check=True)
        made_wt = repo
    sd = ROOT / "seeded" / sid
    meta = json.loads((sd / "meta.json").read_text())
    checks = args or [meta["property"]]
    env = dict(os.environ)
    if repo:
        env["VF_REPO"] = repo
    if apply:
        st = subprocess.run(["git", "-C", "/repo", "status", "--porcelain"], capture_output=True, text=True).stdout.strip()
        if st:
            sys.exit("refusing: /repo has uncommitted changes:\n" + st)
        subprocess.run(["git", "-C", "/repo", "apply", str(sd / "patch.diff")], check=True)
    results = {}
    try:
        for c in checks:
            t0 = time.time()
            evp = ROOT / "evidence" / f"{c}.json"
            saved = evp.read_bytes() if evp.exists() else None   # evidence must describe the unchanged tree: keep it
            r = subprocess.run([str(ROOT / "check"), c, "--tier", "quick"], capture_output=True, text=True, env=env, cwd=str(ROOT))
            if saved is not None:
                evp.write_bytes(saved)
            viol = [l for l in r.stdout.splitlines() if l.startswith("VIOLATION")]
            mechs = [l.strip()[:220] for l in r.stdout.splitlines() if l.strip().startswith("mechanism=")]
            results[c] = {"exit": r.returncode, "violation": bool(viol), "mechanisms": mechs[:4], "wall_s": round(time.time() - t0, 1)}
            print(f"{sid} x {c}: exit {r.returncode} {'VIOLATION' if viol else 'no violation'} {mechs[:2]}")
    finally:
        if apply:
            subprocess.run(["git", "-C", "/repo", "checkout", "--", "."], check=True)
        if made_wt:
            subprocess.run(["git", "-C", "/repo", "worktree", "remove", "--force", made_wt])
    meta.setdefault("runs", []).append({"how": "apply" if apply else ("temporary worktree of /repo HEAD + patch" if made_wt else f"VF_REPO={repo}"), "results": results})
    meta["detected_by"] = sorted({c for run in meta["runs"] for c, r in run["results"].items() if r["violation"]})
    (sd / "meta.json").write_text(json.dumps(meta, indent=1) + "\n")


if __name__ == "__main__":
    main()
