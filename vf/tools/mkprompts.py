"""Prepare a round of seeded-break tasks: one scratch worktree of /repo HEAD and one prompt file per property.

usage: python -m vf.tools.mkprompts <scratch-dir> [CHECK ...]

The prompt contains only the property text, the descriptions of earlier kept breaks for that property (so that a new
attempt differs) and an optional focus hint from FOCUS below - nothing about the machinery in this directory.
Afterwards: keep each result with vf/tools/seedkeep.sh, test with vf.tools.seedtest, remove the worktrees with
`git -C /repo worktree remove --force <dir>`.
"""
import glob
import json
import subprocess
import sys
from pathlib import Path

ROOT = Path(__file__).resolve().parent.parent.parent

TEMPLATE = """You are working in a scratch git worktree of the open-source Python project pitt-rnel/pyrtma (RTMA/Dragonfly messaging: Python client, select-based message manager server, YAML message-definition compiler producing Python/C/JavaScript/MATLAB/combined-YAML outputs, data logger) at {wt} . Work ONLY inside {wt}. Do NOT read, list or touch anything under /verif, /repo or any other directory under /tmp (other than what is in your worktree and this prompt file), and do not use the network.

Environment: Python is /venv/bin/python (3.12); gcc, clang and node (v20) are installed; no MATLAB. Always run with the worktree's sources first on the path: `cd {wt} && PYTHONPATH={wt}/src /venv/bin/python ...`. The existing test-suite is run with `cd {wt} && PYTHONPATH={wt}/src /venv/bin/python -m pytest -q -p no:cacheprovider tests` (about 30 s; the integration tests use random TCP ports and real timing, so if a single integration test fails while the machine is busy, re-run that test alone before concluding anything).

THE PROPERTY the code base is supposed to satisfy:

{cid} - {title}
STATEMENT: {statement}
MUST HOLD FOR: {quantifier}
RELEVANT SOURCE FILES: {files}

YOUR TASK: make a small, realistic change to the source code under {wt}/src that BREAKS this property, while the package still imports/compiles and the existing test-suite still passes. It should be the kind of defect a developer could plausibly introduce (wrong comparison or boundary, a condition in the wrong place, a missing or reordered step, an "optimisation" or "clean-up" that is wrong in a corner case, two cooperating sites that each look fine alone). The break must need something specific to manifest and must NOT be exposed by ordinary use or a simple smoke test. Do not add obviously artificial code (no "if magic_value: misbehave", no random misbehaviour, no added sleeps); keep it subtle and self-consistent. The behaviour you break must be something the STATEMENT above really promises (not merely something the current code happens to do).

{focus}Earlier attempts (do something DIFFERENT from all of these - a different code site AND a different trigger):
{earlier}
Deliver, inside {wt}:
1. BREAK.diff - the change as a unified diff of source files only (`git diff -- src > BREAK.diff`).
2. demo_break.py - a self-contained demonstration program (real MessageManager in a thread or subprocess on a free port, real Clients or raw sockets, scripted TCP peers, temp dirs ... as needed; when run in-process it may substitute module attributes such as `select`, `random`, `time` of pyrtma modules, or threading.Event attributes, to force an order) runnable as `cd {wt} && PYTHONPATH={wt}/src /venv/bin/python demo_break.py`, which exits 0 on the ORIGINAL code and exits non-zero with an explanatory message on the CHANGED code. It must give the same verdict at least 5 times in a row and finish within 2 minutes.
3. NOTE.md - what you changed, why the existing tests still pass, and exactly what is needed for the violation to manifest.

Verify all of this yourself before reporting: (a) with the change applied, the full test-suite passes; (b) with the change applied, demo_break.py fails (non-zero); (c) with the change reverted, demo_break.py passes (exit 0); then re-apply the change so that the worktree is left WITH the change applied. Do not commit anything. TECHNICAL WARNING: do NOT use `git stash` (it is shared between sibling worktrees used by other people); to revert use `git apply -R BREAK.diff` (or `git checkout -- src`), to re-apply `git apply BREAK.diff`.

In your final report give: the diff, one paragraph on how it manifests, and the observed results of (a), (b), (c). Keep the report under 400 words.
"""

# optional focus hints for the next round (edit before running)
FOCUS = {}


def main():
    scratch = Path(sys.argv[1])
    want = sys.argv[2:]
    scratch.mkdir(parents=True, exist_ok=True)
    fo = scratch / "FOCUS.json"
    focus = json.loads(fo.read_text()) if fo.exists() else FOCUS
    props = {}
    for line in (ROOT / "properties.jsonl").read_text().splitlines():
        if line.strip():
            p = json.loads(line)
            props[p["id"]] = p
    earlier = {}
    for d in sorted(glob.glob(str(ROOT / "seeded" / "C*-?"))):
        m = json.loads((Path(d) / "meta.json").read_text())
        earlier.setdefault(m["property"], []).append(m["needs_to_manifest"])
    for cid in (want or sorted(props)):
        p = props[cid]
        wt = scratch / cid
        a = p["anchors"]
        files = ", ".join(a["files"]) if isinstance(a, dict) else str(a)
        q = p["quantifier"]["text"] if isinstance(p["quantifier"], dict) else str(p["quantifier"])
        txt = TEMPLATE.format(wt=wt, cid=cid, title=p["title"], statement=p["statement"], quantifier=q, files=files,
                              focus=("FOCUS: " + focus[cid] + "\n\n") if focus.get(cid) else "",
                              earlier="".join("  - " + e + "\n" for e in earlier.get(cid, [])) or "  (none)\n")
        (scratch / f"PROMPT_{cid}.txt").write_text(txt)
        if not wt.exists():
            subprocess.run(["git", "-C", "/repo", "worktree", "add", "-q", "--detach", str(wt), "HEAD"], check=True)
        print("prepared", wt)


if __name__ == "__main__":
    main()
