from __future__ import annotations

import argparse
import os
import sys


def main():
    ap = argparse.ArgumentParser(prog="check")
    ap.add_argument("id")
    ap.add_argument("--tier", default=os.environ.get("VERIF_TIER", "quick"), choices=["quick", "thorough"])
    ap.add_argument("--seed", type=int, default=int(os.environ.get("VERIF_SEED", "0") or 0))
    ap.add_argument("--replay")
    ap.add_argument("--jobs", type=int)
    a = ap.parse_args()
    from vf import driver

    sys.exit(driver.main_run(a.id.upper(), a.tier, a.seed, a.jobs, a.replay))


if __name__ == "__main__":
    main()
