"""Loaders: turn each language output of the compiler into one canonical description.

canonical struct description: list of fields {name, count, elem} with elem = class string
(char,i8,u8,i16,u16,i32,u32,i64,u64,f32,f64) or a nested list (struct); count 1 == scalar.
"""
from __future__ import annotations

import json
import os
import re
import subprocess
import sys
from pathlib import Path

HERE = Path(__file__).resolve().parent
PY = "/venv/bin/python"

C_TYPES = {"char": "char", "unsigned char": "u8", "uint8_t": "u8", "int8_t": "i8", "int16_t": "i16", "uint16_t": "u16", "int32_t": "i32",
           "uint32_t": "u32", "int64_t": "i64", "uint64_t": "u64", "float": "f32", "double": "f64"}
ML_TYPES = {"int8": "i8", "uint8": "u8", "int16": "i16", "uint16": "u16", "int32": "i32", "uint32": "u32", "int64": "i64", "uint64": "u64",
            "single": "f32", "double": "f64"}


def run(cmd, timeout=120, cwd=None, env=None):
    return subprocess.run(cmd, stdin=subprocess.DEVNULL, capture_output=True, text=True, timeout=timeout, cwd=cwd, env=env)


# ------------------------------------------------------------------------------------------------ compile
def compile_closure(root_yaml, out_dir, name="out", langs=("py", "c", "js", "mat", "combined", "info"), cli=True, cwd=None, extra=(), hashseed=None):
    """the real compiler in a fresh process with stdin closed. Returns (rc, stdout+stderr)."""
    flags = {"py": "--py", "c": "--c", "js": "--js", "mat": "--mat", "combined": "--combined", "info": "--info"}
    env = dict(os.environ)
    if hashseed is not None:
        env["PYTHONHASHSEED"] = str(hashseed)
    if cli:
        cmd = [PY, "-m", "pyrtma.compile", "-i", str(root_yaml), "-o", str(out_dir), "-n", name] + [flags[l] for l in langs] + list(extra)
    else:
        kw = {"python": "py" in langs, "javascript": "js" in langs, "matlab": "mat" in langs, "c_lang": "c" in langs, "info": "info" in langs,
              "combined": "combined" in langs}
        code = ("import sys, json\nfrom pyrtma.compile import compile\nfrom pyrtma.parser import ParserError\n"
                f"try:\n    compile([{str(root_yaml)!r}], {str(out_dir)!r}, {name!r}, **{kw!r})\n"
                "except ParserError as e:\n    print('PARSER_ERROR', type(e).__name__, str(e)[:300]); sys.exit(1)\n"
                "except Exception as e:\n    import traceback; traceback.print_exc(); print('INTERNAL_ERROR', type(e).__name__, str(e)[:300]); sys.exit(3)\n")
        cmd = [PY, "-c", code]
    r = run(cmd, cwd=cwd, env=env)
    return r.returncode, (r.stdout + r.stderr)


def classify_compile_failure(rc, text):
    """'parser_error:<Class>' for documented rejections, 'internal:<Class>' for anything else"""
    m = re.search(r"PARSER_ERROR (\w+)", text)
    if m:
        return "parser_error:" + m.group(1)
    m = re.search(r"^(\w+Error|\w+Exception|AssertionError|\w+): ", text, re.M)
    parser_classes = ("YAMLSyntaxError", "RTMASyntaxError", "HostIDError", "ModuleIDError", "DuplicateNameError", "MessageIDError",
                      "CircularRefError", "ExpressionExpansionError", "RecurisionError", "InvalidTypeError", "FileFormatError",
                      "AlignmentError", "InvalidMessageSize", "ParserError")
    for c in parser_classes:
        if re.search(rf"^{c}:", text, re.M) and "Traceback" not in text:
            return "parser_error:" + c
    m = re.findall(r"^(\w+(?:Error|Exception))\b", text, re.M)
    return "internal:" + (m[-1] if m else f"rc{rc}")


# ------------------------------------------------------------------------------------------------ python
def load_py(module_path, scratch, samples=None):
    out = Path(scratch) / "py.json"
    cmd = [PY, str(HERE / "pydump.py"), str(module_path), str(out)]
    if samples is not None:
        sp = Path(scratch) / "c_samples.json"
        sp.write_text(json.dumps(samples))
        cmd.append(str(sp))
    r = run(cmd)
    if not out.exists():
        return {"ok": False, "error": f"python loader produced nothing rc={r.returncode}: {r.stderr[-600:]}"}
    return json.loads(out.read_text())


def canon_py(fields):
    return [{"name": f["name"], "count": f["count"], "elem": f["elem"] if isinstance(f["elem"], str) else canon_py(f["elem"])} for f in fields]


# ------------------------------------------------------------------------------------------------ C
STRUCT_RE = re.compile(r"typedef struct \{\n(.*?)\n\} (\w+);", re.S)
FIELD_RE = re.compile(r"^\s*([\w ]+?)\s+(\w+)(?:\[(\d+)\])?;$")
DEFINE_RE = re.compile(r"^#define (\w+)\s+(.*)$", re.M)
TYPEDEF_RE = re.compile(r"^typedef ([\w ]+?) (\w+);$", re.M)


def parse_header(text):
    structs, order = {}, []
    for body, name in STRUCT_RE.findall(text):
        fl = []
        for line in body.splitlines():
            m = FIELD_RE.match(line)
            if not m:
                raise ValueError(f"unparsable struct member in generated header: {line!r}")
            fl.append({"type": m.group(1).strip(), "name": m.group(2), "count": int(m.group(3)) if m.group(3) else None})
        structs[name] = fl
        order.append(name)
    defines = {k: v.strip() for k, v in DEFINE_RE.findall(text) if not k.startswith("_")}
    typedefs = {a: t.strip() for t, a in TYPEDEF_RE.findall(text)}
    return {"structs": structs, "order": order, "defines": defines, "typedefs": typedefs}


def gen_probe(hdr, prelude_structs, header_name, prelude_name):
    """C program printing layout facts and a filled sample of every struct in the generated header"""
    allstructs = dict(prelude_structs)
    allstructs.update(hdr["structs"])
    L = ['#include <stdio.h>', '#include <stddef.h>', '#include <string.h>', '#include <stdint.h>', f'#include "{prelude_name}"',
         f'#include "{header_name}"',
         '#define TC(x) _Generic((x), char: "char", signed char: "i8", unsigned char: "u8", short: "i16", unsigned short: "u16", '
         'int: "i32", unsigned int: "u32", long: "i64", unsigned long: "u64", long long: "i64", unsigned long long: "u64", '
         'float: "f32", double: "f64", default: "struct")',
         '#define PV(x) _Generic((x), char*: pstr, const char*: pstr, float: pdbl, double: pdbl, default: pint)(x)',
         'static void pstr(const char* s){ printf("H "); for (const unsigned char* b = (const unsigned char*)s; *b; b++) printf("%02x", *b); printf("\\n"); }', 'static void pdbl(double d){ printf("D %.17g\\n", d); }',
         'static void pint(long long v){ printf("I %lld\\n", v); }',
         'static void hexdump(const void* p, size_t n){ const unsigned char* b = p; for (size_t i = 0; i < n; i++) printf("%02x", b[i]); printf("\\n"); }',
         'int main(void){']
    for k, v in hdr["defines"].items():
        if k == "COMPILED_PYRTMA_VERSION":
            continue
        L.append(f'  printf("DEF {k} "); PV({k});')
    samples = {}
    counter = [0]

    def leaves(sname, prefix_c, prefix_path, out, depth=0):
        for f in allstructs[sname]:
            base = f["type"]
            seen = 0
            while base in hdr["typedefs"] and seen < 10:
                base = hdr["typedefs"][base]
                seen += 1
            idxs = [None] if f["count"] is None else sorted({0, f["count"] - 1})
            if f["count"] is not None and C_TYPES.get(base) == "char":
                idxs = list(range(f["count"]))   # strings are read back up to the first NUL: fill every element
            for i in idxs:
                cexpr = prefix_c + "." + f["name"] + ("" if i is None else f"[{i}]")
                path = prefix_path + [f["name"]] + ([] if i is None else [i])
                if base in allstructs:
                    if depth < 6:
                        leaves(base, cexpr, path, out, depth + 1)
                else:
                    counter[0] += 1
                    k = counter[0]
                    cls = C_TYPES.get(base, None)
                    if cls in ("f32", "f64"):
                        val, cval = k + 0.5, f"{k}.5"
                    elif cls == "char":
                        val = 65 + k % 26
                        cval = str(val)
                    else:
                        val = (k * 37 + 11) % 100 + 1
                        cval = str(val)
                    out.append((cexpr, path, val, cval))

    for sname in hdr["order"]:
        L.append(f'  printf("STRUCT {sname} %zu %zu\\n", sizeof({sname}), _Alignof({sname}));')
        for f in hdr["structs"][sname]:
            e = f"(({sname}*)0)->{f['name']}" + ("[0]" if f["count"] is not None else "")
            L.append(f'  printf("FIELD {sname} {f["name"]} %zu %zu %zu %s {f["type"].replace(" ", "_")}\\n", offsetof({sname}, {f["name"]}), '
                     f'sizeof((({sname}*)0)->{f["name"]}), sizeof((({sname}*)0)->{f["name"]}) / sizeof({e}), TC({e}));')
        lv = []
        leaves(sname, "v", [], lv)
        L.append(f'  {{ {sname} v; memset(&v, 0, sizeof v);')
        for cexpr, path, val, cval in lv:
            L.append(f'    {cexpr} = {cval};')
        L.append(f'    printf("SAMPLE {sname} "); hexdump(&v, sizeof v); }}')
        samples[sname] = {"values": [[p, v] for _, p, v, _ in lv]}
    L += ['  return 0;', '}']
    return "\n".join(L) + "\n", samples


def load_c(header_path, prelude_path, scratch, sanitize=False):
    """returns dict(ok, structs{name:{size,align,fields[...]}}, defines{name:value}, samples, compile_error)"""
    scratch = Path(scratch)
    text = Path(header_path).read_text()
    try:
        hdr = parse_header(text)
        pre = parse_header(Path(prelude_path).read_text())
    except ValueError as e:
        return {"ok": False, "error": str(e)}
    # syntax of the header on its own (with the core prelude), hidden padding is an error
    src, samples = gen_probe(hdr, pre["structs"], Path(header_path).name, Path(prelude_path).name)
    (scratch / "probe.c").write_text(src)
    exe = scratch / "probe"
    inc = ["-I", str(Path(header_path).parent), "-I", str(Path(prelude_path).parent)]
    cc = (["clang", "-std=c11", "-fsanitize=address,undefined", "-fno-sanitize-recover=all", "-Wpadded", "-Werror=padded"] if sanitize
          else ["gcc", "-std=c11", "-Wpadded", "-Werror=padded", "-O0"])
    r = run(cc + inc + [str(scratch / "probe.c"), "-o", str(exe)])
    if r.returncode != 0:
        errs = [l for l in r.stderr.splitlines() if "error" in l]
        return {"ok": False, "error": "C compiler rejected the generated header: " + " | ".join(errs[:4])[:700] + " ... " + r.stderr[-200:],
                "padded": "-Wpadded" in r.stderr or "padding" in r.stderr}
    env = dict(os.environ, ASAN_OPTIONS="abort_on_error=0:halt_on_error=1:detect_leaks=0")
    r = run([str(exe)], env=env)
    if r.returncode != 0:
        return {"ok": False, "error": f"probe failed rc={r.returncode}: {r.stderr[-900:]}"}
    structs, defines = {}, {}
    for line in r.stdout.splitlines():
        p = line.split(" ")
        if p[0] == "STRUCT":
            structs[p[1]] = {"size": int(p[2]), "align": int(p[3]), "fields": []}
        elif p[0] == "FIELD":
            structs[p[1]]["fields"].append({"name": p[2], "offset": int(p[3]), "size": int(p[4]), "count": int(p[5]), "cls": p[6], "type": p[7]})
        elif p[0] == "SAMPLE":
            samples[p[1]]["hex"] = p[2] if len(p) > 2 else ""
        elif p[0] == "DEF":
            kind = p[2]
            val = " ".join(p[3:])
            # (strings are printed as hex: they may hold line ends and other control characters)
            defines[p[1]] = int(val) if kind == "I" else float(val) if kind == "D" else bytes.fromhex(val).decode("utf-8", "replace") if kind == "H" else val
    return {"ok": True, "structs": structs, "defines": defines, "samples": samples, "typedefs": hdr["typedefs"], "decl": hdr["structs"],
            "prelude_decl": pre["structs"], "raw_defines": hdr["defines"]}


def canon_c(cres, sname, depth=0):
    decl = dict(cres["prelude_decl"])
    decl.update(cres["decl"])
    probe = cres["structs"].get(sname)
    out = []
    for i, f in enumerate(decl[sname]):
        base = f["type"]
        n = 0
        while base in cres["typedefs"] and n < 10:
            base = cres["typedefs"][base]
            n += 1
        if base in decl:
            elem = canon_c(cres, base, depth + 1)
        elif probe is not None:
            elem = probe["fields"][i]["cls"]
        else:
            elem = C_TYPES.get(base, "?" + base)
        out.append({"name": f["name"], "count": f["count"] or 1, "elem": elem})
    return out


# ------------------------------------------------------------------------------------------------ JavaScript
NODE_SCRIPT = r"""
import { pathToFileURL } from 'url';
const [,, plain, tagged, outp] = process.argv;
import fs from 'fs';
const res = {ok: false, factories: {}, errors: []};
function describe(v, depth) {
  if (depth > 12) return {t: 'deep'};
  if (v === null || v === undefined) return {t: String(v)};
  if (Array.isArray(v)) return {count: v.length, elem: v.length ? describe(v[0], depth + 1) : {t: 'empty'}, uniform: v.every(x => JSON.stringify(describe(x, depth + 1)) === JSON.stringify(describe(v[0], depth + 1)))};
  if (typeof v === 'object') { if ('__t' in v) return {t: v.__t, n: v.n}; return {fields: Object.keys(v).map(k => [k, describe(v[k], depth + 1)])}; }
  return {t: typeof v, v: v};
}
function sharing(a, path, out, seenPaths) {
  // objects reachable twice inside one factory result (shared array elements)
  const seen = new Map();
  (function walk(v, p) {
    if (v === null || typeof v !== 'object') return;
    if (seen.has(v)) { out.push([seen.get(v), p]); return; }
    seen.set(v, p);
    if (Array.isArray(v)) v.forEach((x, i) => walk(x, p + '[' + i + ']'));
    else Object.keys(v).forEach(k => walk(v[k], p + '.' + k));
  })(a, path);
}
function overlap(a, b) {
  // any object (not primitive) reachable from both results
  const s = new Set(); let hit = null;
  (function walk(v) { if (v === null || typeof v !== 'object') return; s.add(v); (Array.isArray(v) ? v : Object.values(v)).forEach(walk); })(a);
  (function walk(v, p) { if (hit || v === null || typeof v !== 'object') return; if (s.has(v)) { hit = p; return; } (Array.isArray(v) ? v.map((x, i) => [x, p + '[' + i + ']']) : Object.keys(v).map(k => [v[k], p + '.' + k])).forEach(([x, q]) => walk(x, q)); })(b, '');
  return hit;
}
try {
  const m = await import(pathToFileURL(plain).href);
  const R = m.RTMA;
  res.constants = R.constants; res.MT = R.MT; res.MID = R.MID; res.HID = R.HID; res.HASH = R.HASH;
  for (const top of ['SDF', 'MDF']) {
    for (const name of Object.keys(R[top] || {})) {
      const f = {top: top};
      try {
        const a = R[top][name](); const b = R[top][name]();
        f.fresh = (a !== b) && (typeof a === 'object');
        const sh = []; sharing(a, name, sh); f.shared = sh.slice(0, 3);
        f.overlap = overlap(a, b);
      } catch (e) { f.error = String(e); }
      res.factories[name] = f;
    }
  }
  const t = await import(pathToFileURL(tagged).href);
  const T = t.RTMA;
  for (const top of ['SDF', 'MDF']) {
    for (const name of Object.keys(T[top] || {})) {
      try { res.factories[name].desc = describe(T[top][name](), 0); } catch (e) { res.factories[name].tag_error = String(e); }
    }
  }
  res.ok = true;
} catch (e) { res.error = String(e) + (e.stack ? '\n' + e.stack.split('\n').slice(0, 4).join('\n') : ''); }
fs.writeFileSync(outp, JSON.stringify(res));
"""


def load_js(js_path, scratch):
    scratch = Path(scratch)
    text = Path(js_path).read_text()
    plain = scratch / "plain.mjs"
    plain.write_text(text)

    def tag(m):
        name = m.group(1)
        if name == "string":
            return 'type_map.string = (length) => ({__t: "string", n: length});'
        return f'type_map.{name} = () => ({{__t: "{name}"}});'

    tagged_text, n = re.subn(r"^type_map\.(\w+) = \((?:length)?\) => .*;$", tag, text, flags=re.M)
    tagged = scratch / "tagged.mjs"
    tagged.write_text(tagged_text)
    (scratch / "load.mjs").write_text(NODE_SCRIPT)
    out = scratch / "js.json"
    r = run(["node", str(scratch / "load.mjs"), str(plain), str(tagged), str(out)])
    if not out.exists():
        return {"ok": False, "error": f"node produced nothing rc={r.returncode}: {r.stderr[-600:]}"}
    res = json.loads(out.read_text())
    res["type_map_lines_tagged"] = n
    return res


def canon_js(desc, natives):
    """desc: {fields:[[name, d], ...]} -> canonical list; natives maps source type name -> class"""
    out = []
    for name, d in desc.get("fields", []):
        count, e = 1, d
        if "count" in d and "elem" in d:
            count, e = d["count"], d["elem"]
        if "fields" in e:
            elem = canon_js(e, natives)
        elif e.get("t") == "string":
            count, elem = e.get("n"), "char"
        else:
            elem = natives.get(str(e.get("t")).replace("_", " "), natives.get(str(e.get("t")), "?" + str(e.get("t"))))
        out.append({"name": name, "count": count, "elem": elem})
    return out


# ------------------------------------------------------------------------------------------------ MATLAB subset
ASSIGN_RE = re.compile(r"^(RTMA(?:\.\w+)*)\s*=\s*(.*);$")


class MatlabError(Exception):
    pass


def ml_eval(expr, env):
    expr = expr.strip()
    if expr == "[]":
        return {"kind": "empty"}
    if expr == "struct()":
        return {"kind": "struct", "fields": {}}
    m = re.fullmatch(r"(\w+)\(0\)", expr)
    if m and m.group(1) in ML_TYPES:
        return {"kind": "scalar", "t": m.group(1)}
    m = re.fullmatch(r"repmat\((.*), 1, (\d+)\)", expr)
    if m:
        return {"kind": "rep", "elem": ml_eval(m.group(1), env), "n": int(m.group(2))}
    if re.fullmatch(r"RTMA(\.\w+)+", expr):
        return ml_get(env, expr.split(".")[1:], expr)
    if expr.startswith('"') and re.search(r'" \+ char\(\d+\)', expr):
        # a string built from literals and character codes: "text" + char(9) + "more" (string + char gives a string)
        out, rest = "", expr
        while rest:
            m = re.match(r'"((?:[^"]|"")*)"|char\((\d+)\)', rest)
            if not m:
                raise MatlabError(f"statement form outside the emulated subset: {expr[:80]!r}")
            out += m.group(1).replace('""', '"') if m.group(2) is None else chr(int(m.group(2)))
            rest = rest[m.end():]
            if rest:
                if not rest.startswith(" + "):
                    raise MatlabError(f"statement form outside the emulated subset: {expr[:80]!r}")
                rest = rest[3:]
        return {"kind": "str", "v": out}
    if len(expr) >= 2 and expr[0] in "\"'" and expr[-1] == expr[0]:
        # MATLAB string / char literal: the delimiter inside the text is written twice; a lone one ends the literal
        q, body = expr[0], expr[1:-1]
        if q in body.replace(q + q, ""):
            raise MatlabError(f"malformed string literal (unescaped {q} inside): {expr[:80]!r}")
        return {"kind": "str", "v": body.replace(q + q, q)}
    try:
        return {"kind": "num", "v": int(expr)}
    except ValueError:
        pass
    try:
        return {"kind": "num", "v": float(expr)}
    except ValueError:
        raise MatlabError(f"statement form outside the emulated subset: {expr[:80]!r}")


def ml_get(env, path, text):
    cur = env
    for p in path:
        if not (isinstance(cur, dict) and cur.get("kind") == "struct" and p in cur["fields"]):
            raise MatlabError(f"read of a field that has not been assigned: {text}")
        cur = cur["fields"][p]
    import copy
    return copy.deepcopy(cur)


def ml_set(env, path, value):
    cur = env
    for p in path[:-1]:
        nxt = cur["fields"].get(p)
        if nxt is None or nxt.get("kind") == "empty":
            nxt = {"kind": "struct", "fields": {}}
            cur["fields"][p] = nxt
        elif nxt.get("kind") != "struct":
            raise MatlabError(f"field assignment into a non-struct value at {'.'.join(path)}")
        cur = nxt
    cur["fields"][path[-1]] = value


def load_matlab(m_path):
    env = {"kind": "struct", "fields": {}}
    errors = []
    in_loop = False
    nassign = 0
    for ln, line in enumerate(Path(m_path).read_text().splitlines(), 1):
        s = line.strip()
        if not s or s.startswith("%") or s.startswith("function ") or s == "end":
            if s == "end":
                in_loop = False
            continue
        if s.startswith("mtns = fieldnames(") or s.startswith("for idx"):
            in_loop = True
            continue
        if in_loop or s.startswith("mtn =") or s.startswith("mt =") or s.startswith("mdf ="):
            continue
        m = ASSIGN_RE.match(s)
        if not m:
            errors.append(f"line {ln}: statement form outside the emulated subset: {s[:80]!r}")
            continue
        try:
            if m.group(1) == "RTMA":
                env = ml_eval(m.group(2), env) if m.group(2).strip() == "struct()" else env
                continue
            ml_set(env, m.group(1).split(".")[1:], ml_eval(m.group(2), env))
            nassign += 1
        except MatlabError as e:
            errors.append(f"line {ln}: {e}")
    return {"ok": not errors, "errors": errors, "env": env, "assignments": nassign}


def canon_ml(v):
    out = []
    for name, f in v["fields"].items():
        count, e = 1, f
        if f.get("kind") == "rep":
            count, e = f["n"], f["elem"]
        if e.get("kind") == "struct":
            elem = canon_ml(e)
        elif e.get("kind") == "scalar":
            elem = ML_TYPES[e["t"]]
        else:
            elem = "?" + str(e.get("kind"))
        out.append({"name": name, "count": count, "elem": elem})
    return out


def ml_value(env, path):
    cur = env
    for p in path:
        if not (isinstance(cur, dict) and cur.get("kind") == "struct" and p in cur["fields"]):
            return None
        cur = cur["fields"][p]
    return cur


# ------------------------------------------------------------------------------------------------ core prelude
def build_prelude(scratch):
    """C header with the core typedefs/structs, produced by the compiler under test from a *copy* of the core YAMLs
    (in a directory not named core_defs, otherwise every core definition is filtered out of the header)."""
    import shutil
    d = Path(scratch) / "prelude_src"
    d.mkdir(parents=True, exist_ok=True)
    src = Path(os.environ.get("VF_REPO", "/repo") + "/src/pyrtma/core_defs")
    for f in src.glob("*.yaml"):
        shutil.copy(f, d / f.name)
    out = Path(scratch) / "prelude"
    out.mkdir(exist_ok=True)
    rc, txt = compile_closure(d / "core_defs.yaml", out, name="vf_core_prelude", langs=("c",), extra=("--no_core_import",))
    h = out / "vf_core_prelude.h"
    if rc != 0 or not h.exists():
        raise RuntimeError("could not build the core prelude header: " + txt[-800:])
    return h
