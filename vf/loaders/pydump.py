"""Run as a script in a fresh interpreter: imports a generated Python definition module by path and dumps a JSON
description (module-level values, classes with ctypes layout). Optionally decodes a C-written byte dump.

usage: pydump.py <module.py> <out.json> [<c_samples.json>]
"""
import ctypes
import importlib.util
import json
import sys
import traceback


def elem_class(t):
    """canonical element class of a ctypes simple type"""
    code = getattr(t, "_type_", None)
    size = ctypes.sizeof(t)
    if code == "c":
        return "char"
    if code in ("f", "d", "g"):
        return {4: "f32", 8: "f64"}.get(size, f"f{size * 8}")
    if code in ("b", "h", "i", "l", "q"):
        return f"i{size * 8}"
    if code in ("B", "H", "I", "L", "Q"):
        return f"u{size * 8}"
    return f"?{code}"


def describe(cls, seen):
    out = []
    for fname, ftype, *_ in cls._fields_:
        meta = getattr(cls, fname)
        name = fname[1:] if fname.startswith("_") else fname
        count, t = 1, ftype
        if issubclass(t, ctypes.Array):
            count, t = t._length_, t._type_
        if issubclass(t, ctypes.Structure):
            elem = describe(t, seen)
            nested = t.__name__
        else:
            elem = elem_class(t)
            nested = None
        out.append({"name": name, "offset": meta.offset, "size": meta.size, "count": count, "elem": elem, "nested": nested})
    return out


def get_path(obj, path):
    for p in path:
        if isinstance(p, int):
            if p == 0 and isinstance(obj, (int, float)):
                continue  # T[1] is rendered as a scalar descriptor by the Python back end: same wire layout
            obj = obj[p]
        else:
            obj = getattr(obj, p)
    return obj


def main():
    modpath, outpath = sys.argv[1], sys.argv[2]
    res = {"ok": False}
    try:
        spec = importlib.util.spec_from_file_location("vf_generated_defs", modpath)
        mod = importlib.util.module_from_spec(spec)
        sys.modules["vf_generated_defs"] = mod
        spec.loader.exec_module(mod)
        from pyrtma.message_base import MessageBase
        from pyrtma.message_data import MessageData
        import pyrtma.message as pm
        values, classes = {}, {}
        for k, v in vars(mod).items():
            if k.startswith("__"):
                continue
            if isinstance(v, (int, float, str)) and not isinstance(v, bool):
                values[k] = v
            elif isinstance(v, type) and issubclass(v, MessageBase) and v not in (MessageBase, MessageData) and v.__module__ == mod.__name__:
                classes[k] = {"type_id": getattr(v, "type_id", None), "type_hash": getattr(v, "type_hash", None),
                              "type_size": getattr(v, "type_size", None), "type_name": getattr(v, "type_name", None),
                              "sizeof": ctypes.sizeof(v), "is_message": issubclass(v, MessageData),
                              "registered": (pm._msg_defs.get(getattr(v, "type_id", None)) is v) if issubclass(v, MessageData) else None,
                              "fields": describe(v, set())}
            elif isinstance(v, type) and issubclass(v, ctypes._SimpleCData):
                values["alias:" + k] = elem_class(v)
        res.update(ok=True, values=values, classes=classes)
        if len(sys.argv) > 3:
            samples = json.load(open(sys.argv[3]))
            dec = {}
            for sname, s in samples.items():
                cls = getattr(mod, sname, None)
                if cls is None:
                    dec[sname] = {"error": "no such class"}
                    continue
                raw = bytes.fromhex(s["hex"])
                if len(raw) != ctypes.sizeof(cls):
                    dec[sname] = {"error": f"size {len(raw)} != sizeof {ctypes.sizeof(cls)}"}
                    continue
                obj = cls.from_buffer_copy(raw)
                vals = []
                for path, want in s["values"]:
                    try:
                        got = get_path(obj, path)
                        if isinstance(got, (bytes, bytearray)):
                            got = got[0] if len(got) == 1 else list(got)
                        if isinstance(got, str):
                            got = ord(got) if len(got) == 1 else got
                        vals.append([path, want, got])
                    except Exception as e:
                        vals.append([path, want, f"<{type(e).__name__}: {e}>"])
                dec[sname] = {"values": vals}
            res["decoded"] = dec
    except BaseException as e:
        res["error"] = f"{type(e).__name__}: {e}"
        res["traceback"] = traceback.format_exc()[-1500:]
    json.dump(res, open(outpath, "w"), default=str)


if __name__ == "__main__":
    main()
